"""Contracts for quantity.converter (C14) and the converter registries (C12)."""
from __future__ import annotations

import z3

from pyvc import model as M
from pyvc import spec as S
from pyvc.sym import NOTIMPL as NOTIMPL_V, Unsupported, VList
from .common import *
from .quantity_ops import qty_arg, res_rat

KC = "quantity.converter:"
K = "quantity:"
KM = "quantity.money:"


# ---- table view -------------------------------------------------------------
def table_of(h, conv):
    return h.get("TableConverter._unit_map", conv)


def pair(a, b):
    return M.UPair.mk_UPair(a, b)


def tab_has(h, d, key):
    return z3.Select(h.get("Dict:upair.$dom", d), key)


def tab_row(h, d, key):
    g = lambda suf: z3.Select(h.get("Dict:upair.$val" + suf, d), key)
    return g("#0"), g("#1")        # factor, offset


def wf_table(h, d):
    return alloc(h, d)


# ---- TableConverter._get_factor(self, qty, to_unit) ----------------------------
def table_outcome(h, conv, q, to_unit):
    """(forward?, reverse?, forward value, reverse value, reverse factor)"""
    d = table_of(h, conv)
    u1 = unit_of(h, q)
    a = amount(h, q)
    kf, kr = pair(u1, to_unit), pair(to_unit, u1)
    ff, fo = tab_row(h, d, kf)
    rf, ro = tab_row(h, d, kr)
    fwd = tab_has(h, d, kf)
    rev = z3.And(z3.Not(fwd), tab_has(h, d, kr))
    return fwd, rev, ff * a + fo, (a - ro) / rf, rf


def get_factor_spec(ctx: Ctx):
    self, qty, to_unit = ctx.a("self"), ctx.a("qty"), ctx.a("to_unit")
    h = ctx.pre
    req = [alloc(h, self.t), alloc(h, table_of(h, self.t)),
           alloc(h, qty.t), exact_tag(amount_tag(h, qty.t)),
           rows_exact(h, table_of(h, self.t), unit_of(h, qty.t), to_unit.t)]
    fwd, rev, fv, rvv, rf = table_outcome(h, self.t, qty.t, to_unit.t)
    cases = [
        Case("forward", fwd, ensures=[
            ("amount-times-factor-plus-offset", lambda c, o: rat_result(
                o, lambda v, t: z3.And(v == fv, exact_tag(t))))],
            result=res_rat),
        Case("reverse/zero-factor", z3.And(rev, rf == 0),
             raises="ZeroDivisionError"),
        Case("reverse", z3.And(rev, rf != 0), ensures=[
            ("amount-minus-offset-by-factor", lambda c, o: rat_result(
                o, lambda v, t: z3.And(v == rvv, exact_tag(t))))],
            result=res_rat),
        Case("not-tabulated", z3.And(z3.Not(fwd), z3.Not(rev)),
             ensures=[("none", lambda c, o: is_none(o))],
             result=lambda c: NONE),
    ]
    return req, cases


def rows_exact(h, d, u1, u2):
    """table rows hold exact rationals (Decimal / Fraction)"""
    out = []
    for key in (pair(u1, u2), pair(u2, u1)):
        for suf in ("#0#tag", "#1#tag"):
            out.append(exact_tag(z3.Select(h.get("Dict:upair.$val" + suf, d),
                                           key)))
    return z3.And(*out)


def _tc_scen():
    return [Scenario("call", lambda I: dict(
        self=sym_obj("self", "TableConverter"), qty=qty_arg("qty"),
        to_unit=sym_obj("to_unit", "Unit")))]


register(Contract(KC + "TableConverter._get_factor", get_factor_spec,
                  _tc_scen, props=["C14"], public=False))


# ---- Converter.__call__(self, qty, to_unit) -------------------------------------
def conv_call_spec(ctx: Ctx):
    self, qty, to_unit = ctx.a("self"), ctx.a("qty"), ctx.a("to_unit")
    h = ctx.pre
    req, inner = get_factor_spec(ctx)
    same_unit = unit_of(h, qty.t) == to_unit.t
    same_cls = cls_of(h, qty.t) == qty_cls(h, to_unit.t)
    cases = [Case("same-unit", same_unit, ensures=[
        ("amount-unchanged", lambda c, o: rat_result(
            o, lambda v, t: v == amount(h, qty.t)))], result=res_rat)]
    for cs in inner:
        cases.append(Case(cs.name, z3.And(z3.Not(same_unit), same_cls, cs.when),
                          ensures=cs.ensures, raises=cs.raises,
                          result=cs.result))
    cases.append(Case("other-class", z3.And(z3.Not(same_unit),
                                            z3.Not(same_cls)),
                      raises="IncompatibleUnitsError"))
    return req, cases


register(Contract(KC + "Converter.__call__", conv_call_spec, _tc_scen,
                  props=["C14"]))


# ---- TableConverter.__init__(self, conv_table) ----------------------------------
_gp = z3.Const("ghost!pair", M.UPair)          # universally quantified ghost


def table_init_spec(ctx: Ctx):
    self, tab = ctx.a("self"), ctx.a("conv_table")
    h = ctx.pre
    if isinstance(tab, VObj) and tab.klass == "Dict:upair":
        return [alloc(h, tab.t)], [Case("mapping", TRUE, ensures=[
            ("table-is-the-mapping", lambda c, o:
             table_of(o.heap, self.t) == tab.t)],
            modifies=["TableConverter._unit_map"],
            result=lambda c: c.heap.set("TableConverter._unit_map", self.t,
                                        tab.t) or NONE)]
    if isinstance(tab, VList):
        rows = []
        for r in tab.items:
            fu, tu, f, o = r.items
            rows.append((pair(fu.t, tu.t), num_value(f), num_value(o)))

        def view(c, o):
            # for every pair: the last row with that pair decides, no row ->
            # absent
            d = table_of(o.heap, self.t)
            has = FALSE
            ff, fo = z3.RealVal(0), z3.RealVal(0)
            for key, f, off in rows:
                hit = _gp == key
                has = z3.Or(has, hit)
                ff = z3.If(hit, f, ff)
                fo = z3.If(hit, off, fo)
            rf, ro = tab_row(o.heap, d, _gp)
            return z3.And(tab_has(o.heap, d, _gp) == has,
                          z3.Implies(has, z3.And(rf == ff, ro == fo)),
                          z3.Not(alloc(c.pre, d)))
        return [], [Case("rows", TRUE, ensures=[
            ("later-rows-win", view)],
            modifies=["TableConverter._unit_map"])]
    return [], [Case("other", TRUE, raises="TypeError")]


def table_init_scenarios():
    def rows(n):
        def mk(I):
            items = []
            for i in range(n):
                items.append(VTuple([sym_obj(f"f{i}", "Unit"),
                                     sym_obj(f"t{i}", "Unit"),
                                     sym_rat(f"fac{i}", None, I),
                                     sym_rat(f"off{i}", None, I)]))
            return dict(conv_table=VList(items))
        return mk
    out = [Scenario("mapping", lambda I: dict(
        conv_table=sym_obj("conv_table", "Dict:upair")),
        constructing="TableConverter"),
        Scenario("not-iterable", lambda I: dict(conv_table=sym_int("x")),
                 constructing="TableConverter")]
    for n in range(0, 4):
        out.append(Scenario(f"list-of-{n}-rows", rows(n),
                            constructing="TableConverter"))
    return out


register(Contract(KC + "TableConverter.__init__", table_init_spec,
                  table_init_scenarios, props=["C14"], summarize=False,
                  notes="list form verified for 0..3 rows "
                        "(bounded-in-length, all values symbolic)"))


# =============================================================================
# C12: converter registries
def conv_seq(h, c):
    return h.get("List.$seq", h.get("QtyCls._converters", c))


def _seq_after(c: Ctx, o: Outcome, cls_t):
    return conv_seq(o.heap, cls_t)


def _only_this_list(c: Ctx, o: Outcome, lst):
    x = z3.Const("frame!list", Obj)
    return z3.Implies(z3.And(x != lst, alloc(c.pre, x)),
                      z3.Select(o.heap.arr("List.$seq"), x) ==
                      z3.Select(c.pre.arr("List.$seq"), x))


def generic_register_spec(ctx: Ctx):
    cls, conv = ctx.a("cls"), ctx.a("conv")
    h = ctx.pre
    req = [wf_cls(h, cls.t), alloc(h, conv.t)]
    seq = conv_seq(h, cls.t)
    lst = h.get("QtyCls._converters", cls.t)
    present = z3.Contains(seq, z3.Unit(conv.t))
    return req, [
        Case("already-registered", present, ensures=[
            ("unchanged", lambda c, o: _seq_after(c, o, cls.t) == seq)],
            result=lambda c: NONE),
        Case("appended", z3.Not(present), ensures=[
            ("appended-last", lambda c, o: _seq_after(c, o, cls.t) ==
             z3.Concat(seq, z3.Unit(conv.t))),
            ("only-this-list", lambda c, o: _only_this_list(c, o, lst))],
            modifies=["List.$seq"],
            result=lambda c: c.I.bm.bi_List_append(
                VObj(lst, "List:conv"), conv)),
    ]


def _cls_conv_scen(conv_klass="AnyConv"):
    return lambda: [Scenario("conv", lambda I: dict(
        cls=sym_obj("cls", "QtyCls"), conv=sym_obj("conv", conv_klass)))]


register(Contract(K + "QuantityMeta.register_converter", generic_register_spec,
                  _cls_conv_scen(), props=["C12"]))


def generic_remove_spec(ctx: Ctx):
    cls, conv = ctx.a("cls"), ctx.a("conv")
    h = ctx.pre
    req = [wf_cls(h, cls.t), alloc(h, conv.t)]
    seq = conv_seq(h, cls.t)
    lst = h.get("QtyCls._converters", cls.t)
    u = z3.Unit(conv.t)
    present = z3.Contains(seq, u)
    i = z3.IndexOf(seq, u, 0)
    n = z3.Length(seq)
    return req, [
        Case("absent", z3.Not(present), raises="ValueError"),
        Case("removed", present, ensures=[
            ("first-occurrence-removed", lambda c, o: _seq_after(c, o, cls.t)
             == z3.Concat(z3.Extract(seq, 0, i),
                          z3.Extract(seq, i + 1, n - i - 1))),
            ("only-this-list", lambda c, o: _only_this_list(c, o, lst))],
            modifies=["List.$seq"],
            result=lambda c: c.I.bm.bi_List_remove(VObj(lst, "List:conv"),
                                                   conv)),
    ]


register(Contract(K + "QuantityMeta.remove_converter", generic_remove_spec,
                  _cls_conv_scen(), props=["C12"]))


def money_register_spec(ctx: Ctx):
    cls, conv = ctx.a("cls"), ctx.a("conv")
    h = ctx.pre
    req = [wf_cls(h, cls.t)]
    if not isinstance(conv, VObj):
        return req, [Case("not-a-money-converter", TRUE, raises="TypeError")]
    req.append(alloc(h, conv.t))
    seq = conv_seq(h, cls.t)
    lst = h.get("QtyCls._converters", cls.t)
    if conv.klass == "MoneyConverter":
        is_mc = TRUE
    elif conv.klass == "AnyConv":
        is_mc = h.get("AnyConv.$conv_kind", conv.t) == 2
    else:
        is_mc = FALSE
    return req, [
        Case("not-a-money-converter", z3.Not(is_mc), raises="TypeError"),
        Case("pushed", is_mc, ensures=[
            ("appended-last", lambda c, o: _seq_after(c, o, cls.t) ==
             z3.Concat(seq, z3.Unit(conv.t))),
            ("only-this-list", lambda c, o: _only_this_list(c, o, lst))],
            modifies=["List.$seq"],
            result=lambda c: c.I.bm.bi_List_append(VObj(lst, "List:conv"),
                                                   conv)),
    ]


def _money_conv_scen():
    out = []
    for k in ("MoneyConverter", "AnyConv", "TableConverter"):
        out.append(Scenario(f"conv-{k}", lambda I, k=k: dict(
            cls=sym_obj("cls", "QtyCls"), conv=sym_obj("conv", k))))
    out.append(Scenario("conv-int", lambda I: dict(
        cls=sym_obj("cls", "QtyCls"), conv=sym_int("conv"))))
    return out


register(Contract(KM + "MoneyMeta.register_converter", money_register_spec,
                  _money_conv_scen, props=["C12"]))


def money_remove_spec(ctx: Ctx):
    cls, conv = ctx.a("cls"), ctx.a("conv")
    h = ctx.pre
    req = [wf_cls(h, cls.t)]
    seq = conv_seq(h, cls.t)
    lst = h.get("QtyCls._converters", cls.t)
    n = z3.Length(seq)
    if isinstance(conv, VObj):
        req.append(alloc(h, conv.t))
        top_is = z3.And(n > 0, seq[n - 1] == conv.t)
    else:
        top_is = FALSE
    return req, [
        Case("empty", n == 0, raises="IndexError"),
        Case("not-the-most-recent", z3.And(n > 0, z3.Not(top_is)),
             raises="ValueError"),
        Case("popped", top_is, ensures=[
            ("top-removed", lambda c, o: _seq_after(c, o, cls.t) ==
             z3.Extract(seq, 0, n - 1)),
            ("only-this-list", lambda c, o: _only_this_list(c, o, lst))],
            modifies=["List.$seq"],
            result=lambda c: c.I.bm.bi_List_pop(VObj(lst, "List:conv"))),
    ]


register(Contract(KM + "MoneyMeta.remove_converter", money_remove_spec,
                  _money_conv_scen, props=["C12"]))


def enter_spec(ctx: Ctx):
    self = ctx.a("self")
    h = ctx.pre
    req = [wf_cls(h, M.C_MONEY), alloc(h, self.t)]
    seq = conv_seq(h, M.C_MONEY)
    lst = h.get("QtyCls._converters", M.C_MONEY)
    return req, [Case("entered", TRUE, ensures=[
        ("pushed", lambda c, o: conv_seq(o.heap, M.C_MONEY) ==
         z3.Concat(seq, z3.Unit(self.t))),
        ("returns-self", lambda c, o: isinstance(o.value, VObj) and
         o.value.t == self.t),
        ("only-this-list", lambda c, o: _only_this_list(c, o, lst))],
        modifies=["List.$seq"])]


def exit_spec(ctx: Ctx):
    self = ctx.a("self")
    h = ctx.pre
    req = [wf_cls(h, M.C_MONEY), alloc(h, self.t)]
    seq = conv_seq(h, M.C_MONEY)
    lst = h.get("QtyCls._converters", M.C_MONEY)
    n = z3.Length(seq)
    top_is = z3.And(n > 0, seq[n - 1] == self.t)
    return req, [
        Case("empty", n == 0, raises="IndexError"),
        Case("not-the-most-recent", z3.And(n > 0, z3.Not(top_is)),
             raises="ValueError"),
        Case("left", top_is, ensures=[
            ("popped", lambda c, o: conv_seq(o.heap, M.C_MONEY) ==
             z3.Extract(seq, 0, n - 1)),
            ("returns-none", lambda c, o: is_none(o)),
            ("only-this-list", lambda c, o: _only_this_list(c, o, lst))],
            modifies=["List.$seq"]),
    ]


def _mc_self(extra=None):
    def mk():
        out = [Scenario("normal-exit", lambda I: dict(
            self=sym_obj("self", "MoneyConverter")))]
        return out
    return mk


register(Contract(KM + "MoneyConverter.__enter__", enter_spec, _mc_self(),
                  props=["C12"], summarize=False))
register(Contract(
    KM + "MoneyConverter.__exit__", exit_spec,
    lambda: [Scenario("normal-exit", lambda I: dict(
        self=sym_obj("self", "MoneyConverter"),
        a=NONE, b=NONE, c=NONE)),
        Scenario("exceptional-exit", lambda I: dict(
            self=sym_obj("self", "MoneyConverter"),
            a=VClass("ValueError"), b=VExc("ValueError"),
            c=VOpaque("traceback")))],
    props=["C12"], summarize=False))
from pyvc.sym import VClass, VOpaque  # noqa: E402
