"""Contracts of quantity.term.Term over the denotation `den` (DESIGN 4.1):
a term denotes (num: rational, vec: integer vector over base elements).

Used as *summaries* by every client outside term.py (Unit/Quantity algebra,
registries, declarations).  Whether term.py itself meets them is the subject
of C07; until the C07 check discharges them they are listed in the
assumption ledger as `assumed contract (C07)`.
"""
from __future__ import annotations

import z3

from pyvc import model as M
from pyvc import spec as S
from pyvc.sym import (NOTIMPL as NOTIMPL_V, Unsupported, VGen, VList,
                      VOpaque)
from .common import *

K = "quantity.term:"
LEDGER = "assumed contract (C07): "


def t_num(h, t):
    return h.get("Term.$num", t)


def t_vec(h, t):
    return h.get("Term.$vec", t)


def t_len(h, t):
    return h.get("Term.$len", t)


def t_norm(h, t):
    return h.get("Term.$is_norm", t)


def vec_add(a, b):
    """group operation with the identity simplified syntactically, so that
    code and spec build identical terms"""
    if a.eq(M.ZERO_VEC):
        return b
    if b.eq(M.ZERO_VEC):
        return a
    return M.vadd(a, b)


def vec_scale(a, e):
    se = z3.simplify(e) if not isinstance(e, int) else z3.IntVal(e)
    if a.eq(M.ZERO_VEC):
        return a
    if z3.is_int_value(se):
        if se.as_long() == 1:
            return a
        if se.as_long() == 0:
            return M.ZERO_VEC
    return M.vscale(a, se)


def vec_facts(x):
    """ground instances of abelian-group facts for the vector x (A3)"""
    return z3.And(M.vadd(x, M.vscale(x, z3.IntVal(-1))) == M.ZERO_VEC,
                  M.vadd(M.vscale(x, z3.IntVal(-1)), x) == M.ZERO_VEC,
                  M.vscale(M.vscale(x, z3.IntVal(-1)), z3.IntVal(-1)) == x)


def vec_scale_nonzero(x, e):
    return z3.Implies(z3.And(x != M.ZERO_VEC, e != 0),
                      M.vscale(x, e) != M.ZERO_VEC)


def elem_den(h, v: V, path=None):
    """(num, vec) denoted by a term element"""
    if isinstance(v, (VInt, VRat)):
        return num_value(v), M.ZERO_VEC
    if isinstance(v, VObj) and v.klass in ("Unit", "Currency"):
        return unit_den(h, v.t)
    if isinstance(v, VObj) and v.klass == "QtyCls":
        return cls_den(h, v.t)
    raise Unsupported(f"term element {v!r}")


def unit_den(h, u):
    d = h.get("Unit._definition", u)
    none = def_none(h, u)
    return (z3.If(none, z3.RealVal(1), t_num(h, d)),
            z3.If(none, M.unit_vec(u), t_vec(h, d)))


def cls_den(h, c):
    d = h.get("QtyCls._definition", c)
    none = h.get("QtyCls._definition#none", c)
    return (z3.If(none, z3.RealVal(1), t_num(h, d)),
            z3.If(none, M.unit_vec(c), t_vec(h, d)))


def new_term(c: Ctx, num, vec, length=None, norm=None) -> VObj:
    t = c.alloc("Term", "term")
    h = c.heap
    h.set("Term.$num", t.t, num)
    h.set("Term.$num#tag", t.t, z3.IntVal(T_DEC))
    h.set("Term.$vec", t.t, vec)
    if length is not None:
        h.set("Term.$len", t.t, length)
    else:
        h.set("Term.$len", t.t, c.fresh("len", z3.IntSort()))
        c.path.assume(h.get("Term.$len", t.t) >= 0)
    h.set("Term.$is_norm", t.t, norm if norm is not None
          else c.fresh("isnorm", z3.BoolSort()))
    return t


def norm_len_fact(h, t):
    """normal form: empty  <=>  denotes the number 1"""
    return z3.And(t_len(h, t) >= 0,
                  (t_len(h, t) == 0) == z3.And(t_num(h, t) == 1,
                                               t_vec(h, t) == M.ZERO_VEC))


def items_of(interp, items: V):
    if isinstance(items, (VTuple, VList)):
        seq = items.items
    elif isinstance(items, VGen):
        seq = list(interp.iterate(items))
    elif isinstance(items, VOpaque) and isinstance(items.what, tuple) and \
            items.what[0] == "iter":
        seq = list(items.what[1])
    else:
        raise Unsupported(f"term items {items!r}")
    out = []
    for it in seq:
        if not (isinstance(it, VTuple) and len(it.items) == 2 and
                isinstance(it.items[1], VInt)):
            raise Unsupported(f"term item {it!r}")
        out.append((it.items[0], it.items[1]))
    return out


# ---------------------------------------------------------------------------
def term_init_spec(ctx: Ctx):
    """Term(items, reduce_items=True): den(result) = product of the items"""
    self = ctx.a("self")
    items = ctx.a("items")
    h = ctx.pre
    ctx.path.ledger.add(LEDGER + "Term(items) denotes the product of its items")
    its = items_of(ctx.I, items)
    num = z3.RealVal(1)
    vec = M.ZERO_VEC
    for elem, exp in its:
        n, v = elem_den(h, elem)
        num = num * S.qpow(n, exp.t, ctx.path)
        vec = vec_add(vec, vec_scale(v, exp.t))

    def build(c):
        t = self.t
        hh = c.heap
        hh.set("Term.$num", t, num)
        hh.set("Term.$num#tag", t, z3.IntVal(T_DEC))
        hh.set("Term.$vec", t, vec)
        ln = c.fresh("len", z3.IntSort())
        c.path.assume(z3.And(ln >= 0, ln <= len(its)))
        if not its:
            c.path.assume(ln == 0)
        hh.set("Term.$len", t, ln)
        hh.set("Term.$is_norm", t, c.fresh("isnorm", z3.BoolSort()))
        return NONE
    return [], [Case("product", TRUE, ensures=[], result=build)]


register(Contract(K + "Term.__init__", term_init_spec, lambda: [],
                  props=["C07"], public=False,
                  notes="summary only; verified by the C07 check"))


def term_normalized_spec(ctx: Ctx):
    self = ctx.a("self")
    h = ctx.pre
    ctx.path.ledger.add(LEDGER + "Term.normalized() preserves the denotation "
                                 "and yields the normal form")

    def build(c):
        # the normal form is memoised: normalized() is a function of the term
        r = VObj(NORMALIZED_OF(self.t), "Term")
        hh = c.heap
        c.path.assume(alloc(hh, r.t))
        c.path.assume(z3.And(t_num(hh, r.t) == t_num(h, self.t),
                             t_vec(hh, r.t) == t_vec(h, self.t),
                             t_norm(hh, r.t), norm_len_fact(hh, r.t),
                             z3.Implies(t_norm(h, self.t), r.t == self.t),
                             NORMALIZED_OF(r.t) == r.t))
        return r
    return [], [Case("normal-form", TRUE, ensures=[], result=build)]


NORMALIZED_OF = z3.Function("normalized_of", Obj, Obj)

register(Contract(K + "Term.normalized", term_normalized_spec, lambda: [],
                  props=["C07"], public=False))


def term_split_spec(ctx: Ctx):
    self, dflt = ctx.a("self"), ctx.a("dflt_num")
    h = ctx.pre
    ctx.path.ledger.add(LEDGER + "Term.split() separates the numeric factor")
    req = [t_norm(h, self.t)]
    has_num = t_num(h, self.t) != 1

    def build_num(c):
        rest = new_term(c, z3.RealVal(1), t_vec(h, self.t), norm=TRUE)
        c.path.assume(norm_len_fact(c.heap, rest.t))
        return VTuple([VRat(t_num(h, self.t), fresh_exact_tag(c)), rest])
    return req, [
        Case("with-numeric-factor", has_num, ensures=[], result=build_num),
        Case("without-numeric-factor", z3.Not(has_num), ensures=[],
             result=lambda c: VTuple([dflt, self])),
    ]


register(Contract(K + "Term.split", term_split_spec, lambda: [],
                  props=["C07"], public=False))


def term_num_elem_spec(ctx: Ctx):
    self = ctx.a("self")
    h = ctx.pre
    ctx.path.ledger.add(LEDGER + "num_elem of a normalized term is its "
                                 "numeric factor (None if that is 1)")
    req = [t_norm(h, self.t)]
    has_num = t_num(h, self.t) != 1
    return req, [
        Case("numeric-factor", has_num, ensures=[],
             result=lambda c: VRat(t_num(h, self.t), fresh_exact_tag(c))),
        Case("none", z3.Not(has_num), ensures=[], result=lambda c: NONE),
    ]


register(Contract(K + "Term.num_elem", term_num_elem_spec, lambda: [],
                  props=["C07"], public=False))


def term_eq_spec(ctx: Ctx):
    self, other = ctx.a("self"), ctx.a("other")
    h = ctx.pre
    ctx.path.ledger.add(LEDGER + "Term == Term <=> equal denotation")
    if isinstance(other, VObj) and other.klass == "Term":
        eq = z3.And(t_num(h, self.t) == t_num(h, other.t),
                    t_vec(h, self.t) == t_vec(h, other.t))
        return [], [Case("by-denotation", TRUE, ensures=[],
                         result=lambda c: VBool(eq))]
    return [], [Case("not-a-term", TRUE, ensures=[],
                     result=lambda c: NOTIMPL_V)]


register(Contract(K + "Term.__eq__", term_eq_spec, lambda: [],
                  props=["C07"], public=False))


def term_len_spec(ctx: Ctx):
    self = ctx.a("self")
    return [], [Case("len", TRUE, ensures=[],
                     result=lambda c: VInt(t_len(ctx.pre, self.t)))]


register(Contract(K + "Term.__len__", term_len_spec, lambda: [],
                  props=["C07"], public=False))


def _term_binop(kind):
    def spec(ctx: Ctx):
        self, other = ctx.a("self"), ctx.a("other")
        h = ctx.pre
        ctx.path.ledger.add(LEDGER + "Term * / Term computes the group "
                                     "operation on denotations")
        n1, v1 = t_num(h, self.t), t_vec(h, self.t)
        if isinstance(other, VObj) and other.klass == "Term":
            n2, v2 = t_num(h, other.t), t_vec(h, other.t)
        elif is_num(other):
            n2, v2 = num_value(other), M.ZERO_VEC
        else:
            return [], [Case("other", TRUE, ensures=[],
                             result=lambda c: NOTIMPL_V)]
        if kind == "mul":
            num, vec = n1 * n2, vec_add(v1, v2)
        elif kind == "truediv":
            num, vec = n1 / n2, vec_add(v1, vec_scale(v2, -1))
        else:
            num, vec = n2 / n1, vec_add(v2, vec_scale(v1, -1))
        return [], [Case("product", TRUE, ensures=[],
                         result=lambda c: new_term(c, num, vec))]
    return spec


register(Contract(K + "Term.__mul__", _term_binop("mul"), lambda: [],
                  props=["C07"], public=False))
register(Contract(K + "Term.__rmul__", _term_binop("mul"), lambda: [],
                  props=["C07"], public=False))
register(Contract(K + "Term.__truediv__", _term_binop("truediv"), lambda: [],
                  props=["C07"], public=False))
register(Contract(K + "Term.__rtruediv__", _term_binop("rtruediv"), lambda: [],
                  props=["C07"], public=False))


def term_str_spec(ctx: Ctx):
    return [], [Case("str", TRUE, ensures=[],
                     result=lambda c: VStr(TERM_STR(ctx.a("self").t)))]


TERM_STR = z3.Function("term_str", Obj, z3.StringSort())
register(Contract(K + "Term.__str__", term_str_spec, lambda: [],
                  props=["C07"], public=False))
