"""Contracts for quantity.Unit and the constructor Quantity.__new__."""
from __future__ import annotations

import z3

from pyvc import model as M
from pyvc import spec as S
from .common import *

K = "quantity:"


def _unit_or_kinds(name, kinds):
    return [(k, ALL_KINDS[k]) for k in kinds]


# ---------------------------------------------------------------------------
# Unit._get_factor(self, other)   (private; C01, C04, C07, C08)
def get_factor_spec(ctx: Ctx):
    self, other = ctx.a("self"), ctx.a("other")
    h = ctx.pre
    req = [wf_unit(h, self.t)]
    if isinstance(other, VObj) and other.klass == "Unit":
        req.append(z3.Implies(qty_cls(h, other.t) == qty_cls(h, self.t),
                              wf_unit(h, other.t)))
        same = qty_cls(h, other.t) == qty_cls(h, self.t)
        lin = linear(h, qty_cls(h, self.t))

        def res_num(c):
            return VRat(c.fresh("factor", z3.RealSort()), fresh_exact_tag(c))
        cases = [
            Case("linear", z3.And(same, lin),
                 ensures=[("value", lambda c, o: rat_result(
                     o, lambda v, t: z3.And(
                         v == scale(self.t) / scale(other.t), exact_tag(t))))],
                 result=res_num),
            Case("no-ref-unit", z3.And(same, z3.Not(lin)),
                 ensures=[("none", lambda c, o: is_none(o))],
                 result=lambda c: NONE),
            Case("other-class", z3.Not(same), raises="TypeError"),
        ]
    else:
        cases = [Case("not-a-unit", TRUE, raises="TypeError")]
    return req, cases


def get_factor_scenarios():
    return [Scenario(f"other-{k}", lambda I, f=f: dict(
        self=sym_obj("self", "Unit"), other=f("other", I)))
        for k, f in _unit_or_kinds("other", ["Unit", "int", "Qty", "None"])]


register(Contract(K + "Unit._get_factor", get_factor_spec,
                  get_factor_scenarios, props=["C01", "C04", "C08"],
                  public=False))


# ---------------------------------------------------------------------------
# Unit.__eq__(self, other)   (C04: units of one type compare by their scale)
def unit_eq_spec(ctx: Ctx):
    self, other = ctx.a("self"), ctx.a("other")
    h = ctx.pre
    req = [wf_unit(h, self.t)]

    def res_bool(c):
        return VBool(c.fresh("eq", z3.BoolSort()))
    if isinstance(other, VObj) and other.klass == "Unit":
        same = qty_cls(h, other.t) == qty_cls(h, self.t)
        req.append(z3.Implies(same, wf_unit(h, other.t)))
        lin = linear(h, qty_cls(h, self.t))
        cases = [
            Case("linear", z3.And(same, lin),
                 ensures=[("by-scale", lambda c, o: bool_result(
                     o, lambda b: b == (scale(self.t) == scale(other.t))))],
                 result=res_bool),
            Case("no-ref-unit", z3.And(same, z3.Not(lin)),
                 ensures=[("identity", lambda c, o: bool_result(
                     o, lambda b: b == (self.t == other.t)))],
                 result=res_bool),
            Case("other-class", z3.Not(same),
                 ensures=[("false", lambda c, o: bool_result(
                     o, lambda b: z3.Not(b)))],
                 result=res_bool),
        ]
    else:
        cases = [Case("not-a-unit", TRUE,
                      ensures=[("false", lambda c, o: bool_result(
                          o, lambda b: z3.Not(b)))],
                      result=res_bool)]
    return req, cases


def unit_eq_scenarios():
    return [Scenario(f"other-{k}", lambda I, f=f: dict(
        self=sym_obj("self", "Unit"), other=f("other", I)))
        for k, f in _unit_or_kinds("other", ["Unit", "int", "Decimal", "Qty",
                                             "str", "None"])]


register(Contract(K + "Unit.__eq__", unit_eq_spec, unit_eq_scenarios,
                  props=["C04", "C01", "C19"]))


# ---------------------------------------------------------------------------
# Unit._compare(self, other, op) and the four rich comparisons
CMP = {"operator.lt": lambda a, b: a < b, "operator.le": lambda a, b: a <= b,
       "operator.gt": lambda a, b: a > b, "operator.ge": lambda a, b: a >= b}


def _unit_cmp_cases(ctx, self, other, rel):
    h = ctx.pre
    req = [wf_unit(h, self.t)]

    def res_bool(c):
        return VBool(c.fresh("cmp", z3.BoolSort()))
    if isinstance(other, VObj) and other.klass == "Unit":
        same = qty_cls(h, other.t) == qty_cls(h, self.t)
        req.append(z3.Implies(same, wf_unit(h, other.t)))
        lin = linear(h, qty_cls(h, self.t))
        cases = [
            Case("linear", z3.And(same, lin),
                 ensures=[("by-scale", lambda c, o: bool_result(
                     o, lambda b: b == rel(scale(self.t), scale(other.t))))],
                 result=res_bool),
            Case("no-ref-unit", z3.And(same, z3.Not(lin)),
                 raises="UnitConversionError"),
            Case("other-class", z3.Not(same), raises="IncompatibleUnitsError"),
        ]
    else:
        cases = [Case("not-a-unit", TRUE,
                      ensures=[("notimplemented", lambda c, o: is_notimpl(o))],
                      result=lambda c: NOTIMPL_V)]
    return req, cases


from pyvc.sym import NOTIMPL as NOTIMPL_V, VFunc  # noqa: E402


def unit_compare_spec(ctx: Ctx):
    op = ctx.a("op")
    return _unit_cmp_cases(ctx, ctx.a("self"), ctx.a("other"), CMP[op.name])


def unit_compare_scenarios():
    out = []
    for opn in CMP:
        for k, f in _unit_or_kinds("other", ["Unit", "int", "Qty"]):
            out.append(Scenario(f"{opn.split('.')[1]}/other-{k}",
                                lambda I, f=f, opn=opn: dict(
                                    self=sym_obj("self", "Unit"),
                                    other=f("other", I), op=VFunc(opn))))
    return out


register(Contract(K + "Unit._compare", unit_compare_spec,
                  unit_compare_scenarios, props=["C04"], public=False))

for _name, _opn in (("__lt__", "operator.lt"), ("__le__", "operator.le"),
                    ("__gt__", "operator.gt"), ("__ge__", "operator.ge")):
    def _spec(ctx, _opn=_opn):
        return _unit_cmp_cases(ctx, ctx.a("self"), ctx.a("other"), CMP[_opn])

    def _scen():
        return [Scenario(f"other-{k}", lambda I, f=f: dict(
            self=sym_obj("self", "Unit"), other=f("other", I)))
            for k, f in _unit_or_kinds("other", ["Unit", "int", "Qty"])]
    register(Contract(K + "Unit." + _name, _spec, _scen, props=["C04"]))


# ---------------------------------------------------------------------------
# Quantity.__new__(cls, amount, unit=None)  -- the single choke point (C05)
def qty_new_spec(ctx: Ctx):
    cls, amnt, unit = ctx.a("cls"), ctx.a("amount"), ctx.a("unit")
    h = ctx.pre
    req = [wf_cls(h, cls.t),
           z3.Implies(cls.t == M.C_QUANTITY, ref_none(h, cls.t))]
    if not is_num(amnt):
        if isinstance(amnt, VStr):
            raise Unsupported("string amounts are a bounded stand-in (C18)")
        return req, [Case("amount-not-a-number", TRUE, raises="TypeError")]
    v = num_value(amnt)

    def success(name, when, tcls, u):
        def build(c):
            return new_qty(c, tcls, q_round(c.pre, v, u), fresh_exact_tag(c), u)
        return Case(
            name, when,
            ensures=[
                ("fresh", lambda c, o: qty_result(
                    o, lambda q, ph: fresh_in(c, ph, q))),
                ("class", lambda c, o: qty_result(
                    o, lambda q, ph: cls_of(ph, q) == tcls)),
                ("unit", lambda c, o: qty_result(
                    o, lambda q, ph: unit_of(ph, q) == u)),
                ("amount-rounded-once", lambda c, o: qty_result(
                    o, lambda q, ph: amount(ph, q) == q_round(c.pre, v, u))),
                ("exact-representation", lambda c, o: qty_result(
                    o, lambda q, ph: exact_tag(amount_tag(ph, q)))),
            ],
            result=build, props=["C05", "C18", "C15"])

    if isinstance(unit, VNone):
        u = ref_unit(h, cls.t)
        req.append(z3.Implies(linear(h, cls.t), wf_unit(h, u)))
        ctx.axiom(q_round_facts(h, v, u))
        cases = [
            Case("no-unit-no-ref-unit", ref_none(h, cls.t),
                 raises="QuantityError", props=["C18"]),
            success("default-unit", linear(h, cls.t), cls.t, u),
        ]
    elif isinstance(unit, VObj) and unit.klass == "Unit":
        u = unit.t
        req += [wf_unit(h, u)]
        ctx.axiom(q_round_facts(h, v, u))
        ucls = qty_cls(h, u)
        cases = [
            success("generic-factory", cls.t == M.C_QUANTITY, ucls, u),
            success("own-type", z3.And(cls.t != M.C_QUANTITY, cls.t == ucls),
                    cls.t, u),
            Case("unit-of-other-type",
                 z3.And(cls.t != M.C_QUANTITY, cls.t != ucls),
                 raises="QuantityError", props=["C15", "C18"]),
        ]
    else:
        cases = [Case("unit-not-a-unit", TRUE, raises="TypeError")]
    return req, cases


from pyvc.sym import Unsupported  # noqa: E402


def qty_new_scenarios():
    out = []
    for ak, af in list(NUM_KINDS.items()) + [("None", ALL_KINDS["None"]),
                                             ("Unit", ALL_KINDS["Unit"])]:
        for uk, uf in (("None", ALL_KINDS["None"]), ("Unit", ALL_KINDS["Unit"]),
                       ("str", ALL_KINDS["str"])):
            if ak in ("None", "Unit") and uk != "Unit":
                continue
            out.append(Scenario(f"amount-{ak}/unit-{uk}",
                                lambda I, af=af, uf=uf: dict(
                                    cls=sym_obj("cls", "QtyCls"),
                                    amount=af("amount", I),
                                    unit=uf("unit", I))))
    return out


register(Contract(K + "Quantity.__new__", qty_new_spec, qty_new_scenarios,
                  props=["C05", "C18", "C15", "C01"],
                  notes="string amounts: bounded stand-in (C18)"))
