"""Sidecar contracts for mamrhein/quantity (one module per source module)."""
