"""Contracts for the currency declarations (C08, C16): MoneyMeta.new_unit,
MoneyMeta.register_currency, currencies.get_currency_info."""
from __future__ import annotations

import z3

from pyvc import model as M
from pyvc import spec as S
from pyvc.sym import Unsupported, VClass
from .common import *
from .declare import (unit_creation, sym_has, sym_get, unit_map,
                      unitmap_inv_at, symmap_inv_at)

KM = "quantity.money:"
KC = "quantity.money.currencies:"
K = "quantity:"
RG = "quantity.registry:"


# ---- ISO table view ---------------------------------------------------------------
def ccy_has(h, code):
    return z3.Select(h.get("Dict:ccy.$dom", M.G_CCYDICT), code)


def ccy_field(h, code, i):
    suf = {0: "#0", 1: "#1", 2: "#2", 3: "#3", 4: "#4"}[i]
    return z3.Select(h.get("Dict:ccy.$val" + suf, M.G_CCYDICT), code)


def ccy_inv_at(h, code):
    """table invariant at one code: the entry carries its own code and a
    non-negative number of minor units"""
    return z3.And(alloc(h, M.G_CCYDICT), z3.Implies(ccy_has(h, code), z3.And(
        ccy_field(h, code, 0) == code, ccy_field(h, code, 3) >= 0,
        alloc(h, ccy_field(h, code, 4)))))


# ---- get_currency_info(iso_code) ----------------------------------------------------
def get_info_spec(ctx: Ctx):
    code = ctx.a("iso_code")
    h = ctx.pre
    if not isinstance(code, VStr):
        raise Unsupported("non-string code")
    c = code.t

    def build(cx):
        return VTuple([VStr(ccy_field(h, c, 0)), VInt(ccy_field(h, c, 1)),
                       VStr(ccy_field(h, c, 2)), VInt(ccy_field(h, c, 3)),
                       VObj(ccy_field(h, c, 4), "Opaque")])

    def entry(cx, o):
        v = o.value
        if not (isinstance(v, VTuple) and len(v.items) == 5):
            return FALSE
        return z3.And(v.items[0].t == ccy_field(h, c, 0),
                      v.items[2].t == ccy_field(h, c, 2),
                      v.items[3].t == ccy_field(h, c, 3))
    return [ccy_inv_at(h, c)], [
        Case("known-code", ccy_has(h, c), ensures=[("table-entry", entry)],
             result=build, props=["C08"]),
        Case("unknown-code", z3.Not(ccy_has(h, c)), raises="ValueError",
             props=["C08", "C16"]),
    ]


register(Contract(KC + "get_currency_info", get_info_spec,
                  lambda: [Scenario("code", lambda I: dict(
                      iso_code=sym_str("iso_code")))], props=["C08", "C16"]))


# ---- MoneyMeta.new_unit(cls, symbol, name=None, minor_unit=None, smallest_fraction=None)
def currency_result(o: Outcome, pred):
    if not (isinstance(o.value, VObj) and o.value.klass == "Unit"):
        return FALSE
    return pred(o.value.t, o.heap)


def money_new_unit_cases(ctx: Ctx, cls_t, symbol_v: V, minor: V, sf: V, req,
                         guard=TRUE):
    h = ctx.pre
    cases = []
    if not isinstance(minor, (VNone, VInt)):
        cases.append(Case("minor-unit-not-integral", guard, raises="TypeError",
                          props=["C08", "C16"]))
        return cases
    mu_given = isinstance(minor, VInt)
    g = guard
    if mu_given:
        cases.append(Case("minor-unit-negative", z3.And(g, minor.t < 0),
                          raises="ValueError", props=["C08", "C16"]))
        g = z3.And(g, minor.t >= 0)
    if isinstance(sf, VStr):
        raise Unsupported("smallest fraction given as string (bounded)")
    if isinstance(sf, VNone):
        frac = S.p10(-minor.t) if mu_given else z3.RealVal("1/100")
        if mu_given:
            S.p10_facts(ctx.path, -minor.t)
    elif is_num(sf):
        frac = num_value(sf)
        kt = sf.known_tag() if isinstance(sf, VRat) else T_INT
        if kt == T_FRAC:
            cases.append(Case("fraction-not-a-decimal",
                              z3.And(g, z3.Not(S.dec_representable(frac))),
                              raises="ValueError", props=["C08", "C16"]))
            g = z3.And(g, S.dec_representable(frac))
        if not mu_given:
            inv = 1 / frac
            bad = z3.Or(frac <= 0, z3.Not(z3.And(S.is_int(inv), inv > 1)))
            cases.append(Case("one-not-a-multiple-of-fraction", z3.And(g, bad),
                              raises="ValueError", props=["C08", "C16"]))
            g = z3.And(g, z3.Not(bad))
            ctx.axiom(S.num_den_fact(inv), "A3: numer/denom spec functions")
            ctx.axiom((S.denom(inv) == 1) == S.is_int(inv),
                      "A2: a Fraction/Decimal has denominator 1 iff integral")
        else:
            # precision of the fraction must equal the minor unit
            raise Unsupported("minor_unit together with smallest_fraction "
                              "(Decimal.precision) is a bounded stand-in")
    else:
        cases.append(Case("fraction-not-a-number", g, raises="TypeError|ValueError",
                          props=["C08", "C16"]))
        return cases
    if not isinstance(symbol_v, VStr):
        cases.append(Case("symbol-not-a-string", g, raises="TypeError",
                          props=["C08", "C16"]))
        return cases
    s = symbol_v.t
    empty = z3.Length(s) == 0
    cases.append(Case("empty-symbol", z3.And(g, empty), raises="ValueError",
                      props=["C08", "C16"]))
    g = z3.And(g, z3.Not(empty))
    creq, ens, mods, _e, taken = unit_creation(ctx, cls_t, s, None, None, None,
                                               FALSE, g)
    req += creq
    ens = ens + [
        ("is-a-currency", lambda c, o: currency_result(
            o, lambda u, ph: is_currency(ph, u))),
        ("smallest-fraction", lambda c, o: currency_result(
            o, lambda u, ph: z3.And(
                smallest_fraction(ph, u) == frac,
                z3.Not(ph.get("Unit._smallest_fraction#unset", u)),
                ph.get("Unit._smallest_fraction#tag", u) == T_DEC))),
        ("well-formed", lambda c, o: currency_result(
            o, lambda u, ph: wf_unit(ph, u))),
    ]
    cases.append(Case("symbol-taken", z3.And(g, taken), raises="ValueError",
                      props=["C08", "C16"]))
    cases.append(Case("created", z3.And(g, z3.Not(taken)), ensures=ens,
                      modifies=mods + ["Unit._smallest_fraction"],
                      props=["C08", "C05"]))
    return cases


def money_new_unit_spec(ctx: Ctx):
    cls, symbol_v = ctx.a("cls"), ctx.a("symbol")
    minor, sf = ctx.a("minor_unit"), ctx.a("smallest_fraction")
    h = ctx.pre
    req = [cls.t == M.C_MONEY, wf_cls(h, cls.t)]
    return req, money_new_unit_cases(ctx, cls.t, symbol_v, minor, sf, req)


def money_new_unit_scenarios():
    out = []
    for mk, mf in (("none", lambda I: NONE), ("int", lambda I: sym_int("minor")),
                   ("float", lambda I: sym_rat("minor", T_FLOAT))):
        for fk, ff in (("none", lambda I: NONE),
                       ("Decimal", lambda I: sym_rat("sf", T_DEC)),
                       ("Fraction", lambda I: sym_rat("sf", T_FRAC)),
                       ("int", lambda I: sym_int("sf"))):
            if mk == "int" and fk != "none":
                continue
            if mk == "float" and fk != "none":
                continue
            out.append(Scenario(f"minor-{mk}/fraction-{fk}",
                                lambda I, mf=mf, ff=ff: dict(
                                    cls=VObj(M.C_MONEY, "QtyCls"),
                                    symbol=sym_str("symbol"),
                                    name=sym_str("name"), minor_unit=mf(I),
                                    smallest_fraction=ff(I))))
    out.append(Scenario("symbol-int", lambda I: dict(
        cls=VObj(M.C_MONEY, "QtyCls"), symbol=sym_int("symbol"), name=NONE,
        minor_unit=NONE, smallest_fraction=NONE)))
    return out


_INL = [K + "Unit.__eq__", K + "QuantityMeta._make_unit",
        K + "QuantityMeta.new_unit",
        RG + "DefinedItemRegistry.register_item"]

register(Contract(KM + "MoneyMeta.new_unit", money_new_unit_spec,
                  money_new_unit_scenarios, props=["C08", "C16", "C05"],
                  summarize=False, inline=_INL,
                  notes="string arguments and minor_unit combined with "
                        "smallest_fraction: bounded stand-in"))


# ---- MoneyMeta.register_currency(cls, iso_code) ---------------------------------------
def register_currency_spec(ctx: Ctx):
    cls, code = ctx.a("cls"), ctx.a("iso_code")
    h = ctx.pre
    if not isinstance(code, VStr):
        raise Unsupported("non-string code")
    c = code.t
    req = [cls.t == M.C_MONEY, wf_cls(h, cls.t), ccy_inv_at(h, c),
           unitmap_inv_at(h, cls.t, c)]
    m = unit_map(h, cls.t)
    registered = sym_has(h, c, m)
    known = ccy_has(h, c)
    req.append(z3.Implies(registered, z3.And(
        wf_unit(h, sym_get(h, c, m)), is_currency(h, sym_get(h, c, m)))))
    cases = [
        Case("already-registered", registered, ensures=[
            ("identical-object", lambda cx, o: currency_result(
                o, lambda u, ph: u == sym_get(h, c, m)))],
            props=["C08"]),
        Case("unknown-code", z3.And(z3.Not(registered), z3.Not(known)),
             raises="ValueError", props=["C08", "C16"]),
    ]
    minor = VInt(ccy_field(h, c, 3))
    sub = money_new_unit_cases(ctx, cls.t, VStr(ccy_field(h, c, 0)), minor, NONE,
                               req, guard=z3.And(z3.Not(registered), known))
    for cs in sub:
        if cs.name == "created":
            cs.ensures = cs.ensures + [
                ("symbol-is-the-code", lambda cx, o: currency_result(
                    o, lambda u, ph: symbol(ph, u) == c)),
                ("fraction-is-ten-to-minus-minor-units",
                 lambda cx, o: currency_result(o, lambda u, ph:
                                               smallest_fraction(ph, u) ==
                                               S.p10(-ccy_field(h, c, 3)))),
            ]
        cases.append(cs)
    return req, cases


register(Contract(KM + "MoneyMeta.register_currency", register_currency_spec,
                  lambda: [Scenario("code", lambda I: dict(
                      cls=VObj(M.C_MONEY, "QtyCls"),
                      iso_code=sym_str("iso_code")))],
                  props=["C08", "C16"], summarize=False,
                  inline=_INL + [KM + "MoneyMeta.new_unit"]))
