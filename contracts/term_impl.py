"""Contracts for the implementation of quantity.term (C07): the helpers and
the fast paths of Term._reduce_items, verified from the real source with
units as term elements.  The general (sort / group / merge) path of
_reduce_items and _iter_normalized are outside the verifier's reach and are
covered by the exhaustive small-scope stand-in."""
from __future__ import annotations

import z3

from pyvc import model as M
from pyvc import spec as S
from pyvc.sym import Unsupported, VGen, VList, VOpaque
from .common import *
from .term import unit_den, vec_add, vec_scale

KT = "quantity.term:"


# ---- _pow(elem, exp): exact power, never a float --------------------------------
def pow_spec(ctx: Ctx):
    elem, exp = ctx.a("elem"), ctx.a("exp")
    x = num_value(elem)
    e = exp.t
    bad = z3.And(x == 0, e < 0)

    def res(c):
        return VRat(S.qpow(x, e, c.path), fresh_exact_tag(c))
    return [], [
        Case("zero-to-negative-power", bad,
             raises="ZeroDivisionError|ValueError", props=["C07"]),
        Case("power", z3.Not(bad), ensures=[
            ("value", lambda c, o: rat_result(
                o, lambda v, t: v == S.qpow(x, e, c.path))),
            ("exact-never-a-float", lambda c, o: rat_result(
                o, lambda v, t: z3.Or(t == T_INT, t == T_DEC, t == T_FRAC))),
        ], result=res, props=["C07"]),
    ]


def pow_scenarios():
    return [Scenario(f"elem-{k}", lambda I, k=k: dict(
        elem=ALL_KINDS[k]("elem", I), exp=sym_int("exp")))
        for k in ("int", "Decimal", "Fraction")]


register(Contract(KT + "_pow", pow_spec, pow_scenarios, props=["C07"]))


# ---- items as python-level tuples of (elem, exp) -------------------------------
def item_den(h, elem: V, e, path=None):
    if is_num(elem):
        return S.qpow(num_value(elem), e, path), M.ZERO_VEC
    n, v = unit_den(h, elem.t)
    return S.qpow(n, e, path), vec_scale(v, e)


def items_den(h, items, path=None):
    num, vec = z3.RealVal(1), M.ZERO_VEC
    for elem, e in items:
        n, v = item_den(h, elem, e, path)
        num = num * n
        vec = vec_add(vec, v)
    return num, vec


def result_items(o: Outcome):
    v = o.value
    if isinstance(v, VGen):
        v = VTuple(list(v.iterator()))
    if not isinstance(v, (VTuple, VList)):
        return None
    out = []
    for it in v.items:
        if not (isinstance(it, VTuple) and len(it.items) == 2 and
                isinstance(it.items[1], VInt)):
            return None
        out.append((it.items[0], it.items[1].t))
    return out


def _mk_items(kinds, I):
    items = []
    for i, k in enumerate(kinds):
        if k == "unit":
            elem = sym_obj(f"u{i}", "Unit")
        else:
            elem = ALL_KINDS[k](f"x{i}", I)
        items.append(VTuple([elem, sym_int(f"e{i}")]))
    return VTuple(items)


def _pairs(items: VTuple):
    return [(it.items[0], it.items[1].t) for it in items.items]


# ---- Term._reduce_items(self, items, n_items, keep_item_order=True): fast paths --
def reduce_items_spec(ctx: Ctx):
    items, n_items = ctx.a("items"), ctx.a("n_items")
    h = ctx.pre
    pairs = _pairs(items)
    req = []
    for elem, e in pairs:
        if isinstance(elem, VObj):
            req.append(wf_unit(h, elem.t))
            req.append(wf_unit_den(h, elem.t))
        else:
            req.append(z3.Or(num_value(elem) != 0, e >= 0))   # no 0 ** negative
    num, vec = items_den(h, pairs, ctx.path)
    if len(pairs) == 2 and all(is_num(el) for el, _ in pairs):
        # two numeric items: the fast path applies when their product is not 1
        # (otherwise the general, bounded path runs)
        req.append(num != 1)
    # every numeric item: exact kind; two units of one type are convertible
    # exactly when the type has a reference unit (Unit._get_factor)
    from .term import vec_facts
    for elem, e in pairs:
        if isinstance(elem, VObj):
            ctx.axiom(vec_facts(unit_den(h, elem.t)[1]))
            ctx.axiom(z3.And(*[
                M.vadd(M.vscale(unit_den(h, elem.t)[1], e),
                       M.vscale(unit_den(h, elem.t)[1], e2)) ==
                M.vscale(unit_den(h, elem.t)[1], e + e2)
                for _, e2 in pairs]),
                "A3: scaling distributes over addition of dimension vectors")
            ctx.axiom(M.vscale(unit_den(h, elem.t)[1], z3.IntVal(0)) ==
                      M.ZERO_VEC)
            sv = M.vscale(unit_den(h, elem.t)[1], e)
            ctx.axiom(z3.And(M.vadd(M.ZERO_VEC, sv) == sv,
                             M.vadd(sv, M.ZERO_VEC) == sv,
                             M.vscale(unit_den(h, elem.t)[1], z3.IntVal(1)) ==
                             unit_den(h, elem.t)[1]),
                      "A3: identity of the group of dimension vectors")

    units = [(unit_den(h, el.t)[0], e) for el, e in pairs if isinstance(el, VObj)]
    if len(units) == 2:
        (n1, e1), (n2, e2) = units
        ctx.axiom(z3.Implies(z3.And(n1 != 0, n2 != 0), z3.And(
            S.qpow_uf(n2 / n1, e2) * S.qpow_uf(n1, e2) == S.qpow_uf(n2, e2),
            S.qpow_uf(n1, e1) * S.qpow_uf(n1, e2) == S.qpow_uf(n1, e1 + e2),
            *S.qpow_facts(n2 / n1, e2), *S.qpow_facts(n1, e1 + e2))),
            "A3: laws of integer powers (x*y)**n == x**n * y**n, "
            "x**(m+n) == x**m * x**n, ground instances")

    def den_preserved(c, o):
        its = result_items(o)
        if its is None:
            return FALSE
        n2, v2 = items_den(o.heap, its, c.path)
        return z3.And(n2 == num, v2 == vec)

    def reduced(c, o):
        its = result_items(o)
        if its is None:
            return FALSE
        cl = []
        for elem, e in its:
            cl.append(e != 0)
            if is_num(elem):
                cl.append(num_value(elem) != 1)
                if isinstance(elem, VRat):
                    cl.append(z3.Or(elem.tag == T_DEC, elem.tag == T_FRAC))
        return z3.And(*cl) if cl else TRUE
    return req, [Case("fast-path", TRUE, ensures=[
        ("denotation-preserved", den_preserved),
        ("no-unit-factors-no-zero-exponents-no-floats", reduced),
    ], props=["C07"])]


def reduce_items_scenarios():
    out = []
    for kinds in (("int",), ("Decimal",), ("unit",),
                  ("int", "unit"), ("Fraction", "unit"), ("unit", "Decimal"),
                  ("unit", "unit"), ("int", "Fraction"), ("Decimal", "int")):
        out.append(Scenario("items-" + "-".join(kinds), lambda I, kinds=kinds: dict(
            self=VOpaque("term"), items=_mk_items(kinds, I),
            n_items=vint(len(kinds)))))
    return out


register(Contract(KT + "Term._reduce_items", reduce_items_spec,
                  reduce_items_scenarios, props=["C07"],
                  summarize=False,
                  notes="n_items in {1, 2} (the fast paths); the general path "
                        "is bounded"))


# ---- _reciprocal(items): every exponent negated, elements and order kept ---------
def _same_elem(a: V, b: V):
    if isinstance(a, VObj) and isinstance(b, VObj):
        return a.t == b.t
    if is_num(a) and is_num(b):
        cl = [num_value(a) == num_value(b)]
        if isinstance(a, VRat) and isinstance(b, VRat):
            cl.append(a.tag == b.tag)
        elif isinstance(a, VRat) != isinstance(b, VRat):
            return FALSE
        return z3.And(*cl)
    return FALSE


def reciprocal_spec(ctx: Ctx):
    pairs = _pairs(ctx.a("items"))
    h = ctx.pre
    req = []
    for elem, e in pairs:
        if isinstance(elem, VObj):
            req.append(wf_unit(h, elem.t))
            req.append(wf_unit_den(h, elem.t))
        else:
            req.append(num_value(elem) != 0)
    num, vec = items_den(h, pairs, ctx.path)
    from .term import vec_facts
    for elem, e in pairs:
        if isinstance(elem, VObj):
            n, v = unit_den(h, elem.t)
            ctx.axiom(z3.Implies(n != 0, z3.And(*S.qpow_facts(n, e))),
                      "A3: x ** -n * x ** n == 1, ground instance")
            ctx.axiom(M.vscale(v, -e) ==
                      M.vscale(M.vscale(v, e), z3.IntVal(-1)),
                      "A3: (-n) v == -(n v), ground instance")
            ctx.axiom(vec_facts(M.vscale(v, e)))
        else:
            ctx.axiom(z3.And(*S.qpow_facts(num_value(elem), e)),
                      "A3: x ** -n * x ** n == 1, ground instance")

    def structural(c, o):
        its = result_items(o)
        if its is None or len(its) != len(pairs):
            return FALSE
        return z3.And(*[z3.And(_same_elem(a, b), f == -e)
                        for (a, e), (b, f) in zip(pairs, its)])

    def inverse(c, o):
        its = result_items(o)
        if its is None or len(its) > 1:
            # the product law for several items follows from the structural
            # clause item by item; it is stated for one item, where the
            # group inverse is a single ground fact
            return TRUE if its is not None else FALSE
        n2, v2 = items_den(o.heap, its, c.path)
        return z3.And(n2 * num == 1, vec_add(v2, vec).eq(M.ZERO_VEC)
                      if vec.eq(M.ZERO_VEC) else M.vadd(v2, vec) == M.ZERO_VEC)
    return req, [Case("reciprocal", TRUE, ensures=[
        ("same-elements-same-order-exponents-negated", structural),
        ("single-item-denotes-the-group-inverse", inverse),
    ], props=["C07"])]


def _seq_scenarios(fn_arg="items"):
    out = []
    for kinds in (("int",), ("Decimal",), ("Fraction",), ("unit",),
                  ("int", "unit"), ("unit", "unit"), ("Decimal", "unit", "unit"),
                  ("unit", "Fraction", "unit")):
        out.append(Scenario("items-" + "-".join(kinds), lambda I, kinds=kinds: {
            fn_arg: _mk_items(kinds, I)}))
    return out


register(Contract(KT + "_reciprocal", reciprocal_spec, _seq_scenarios,
                  props=["C07"], summarize=False,
                  notes="item tuples of length 1..3, units and every exact "
                        "numeric kind as elements"))


# ---- _filter_items(items): drops exactly the items equivalent to 1 ---------------
def filter_items_spec(ctx: Ctx):
    pairs = _pairs(ctx.a("items"))
    h = ctx.pre
    req = []
    for elem, e in pairs:
        if isinstance(elem, VObj):
            req.append(wf_unit(h, elem.t))
            req.append(wf_unit_den(h, elem.t))
        else:
            req.append(z3.Or(num_value(elem) != 0, e >= 0))
    num, vec = items_den(h, pairs, ctx.path)
    for elem, e in pairs:
        if is_num(elem):
            ctx.axiom(z3.And(*S.qpow_facts(num_value(elem), e)),
                      "A3: x ** 0 == 1, 1 ** n == 1, ground instances")
        else:
            ctx.axiom(M.vscale(unit_den(h, elem.t)[1], z3.IntVal(0)) ==
                      M.ZERO_VEC, "A3: 0 v == 0, ground instance")
            ctx.axiom(z3.And(*S.qpow_facts(unit_den(h, elem.t)[0], e)))
            sv = M.vscale(unit_den(h, elem.t)[1], e)
            ctx.axiom(z3.And(M.vadd(M.ZERO_VEC, sv) == sv,
                             M.vadd(sv, M.ZERO_VEC) == sv,
                             M.vadd(M.ZERO_VEC, M.ZERO_VEC) == M.ZERO_VEC),
                      "A3: identity of the group of dimension vectors")

    def keep(elem, e):
        if is_num(elem):
            return z3.And(e != 0, num_value(elem) != 1)
        return e != 0

    def exact_subsequence(c, o):
        """the result is the subsequence of the kept items: decided per
        combination of kept flags"""
        its = result_items(o)
        if its is None:
            return FALSE
        cl = []
        import itertools
        for flags in itertools.product((False, True), repeat=len(pairs)):
            guard = z3.And(*[keep(el, e) if f else z3.Not(keep(el, e))
                             for f, (el, e) in zip(flags, pairs)])
            kept = [p for f, p in zip(flags, pairs) if f]
            if len(kept) != len(its):
                cl.append(z3.Not(guard))
            else:
                cl.append(z3.Implies(guard, z3.And(*[
                    z3.And(_same_elem(a, b), e == f)
                    for (a, e), (b, f) in zip(kept, its)])))
        return z3.And(*cl)

    def den_preserved(c, o):
        its = result_items(o)
        if its is None:
            return FALSE
        n2, v2 = items_den(o.heap, its, c.path)
        return z3.And(n2 == num, v2 == vec)
    return req, [Case("filter", TRUE, ensures=[
        ("exactly-the-items-not-equivalent-to-1-in-order", exact_subsequence),
        ("denotation-preserved", den_preserved),
    ], props=["C07"])]


register(Contract(KT + "_filter_items", filter_items_spec, _seq_scenarios,
                  props=["C07"], summarize=False,
                  notes="item tuples of length 1..3, units and every exact "
                        "numeric kind as elements"))
