"""Contracts for __hash__ (C19): equal objects hash equal."""
from __future__ import annotations

import z3

from pyvc import model as M
from pyvc import spec as S
from .common import *
from .quantity_ops import qty_arg

K = "quantity:"
KM = "quantity.money:"


def unit_hash_term(h, u):
    """what Unit.__hash__ computes: the hash of the symbol"""
    return S.hash_str(symbol(h, u))


def qty_hash_spec(ctx: Ctx):
    self = ctx.a("self")
    h = ctx.pre
    c = cls_of(h, self.t)
    u = unit_of(h, self.t)
    r = ref_unit(h, c)
    lin = linear(h, c)
    by_refval = S.hash_pair(S.hash_num(amount(h, self.t) * scale(u) / scale(r)),
                            S.hash_pair(unit_hash_term(h, r), S.HASH_NIL))
    by_pair = S.hash_pair(S.hash_num(amount(h, self.t)),
                          S.hash_pair(unit_hash_term(h, u), S.HASH_NIL))
    return [wf_qty(h, self.t)], [
        Case("with-reference-unit", lin, ensures=[
            ("hash-of-reference-value", lambda cx, o: int_result(
                o, lambda k: k == by_refval))],
            result=lambda cx: VInt(by_refval)),
        Case("without-reference-unit", z3.Not(lin), ensures=[
            ("hash-of-amount-and-unit", lambda cx, o: int_result(
                o, lambda k: k == by_pair))],
            result=lambda cx: VInt(by_pair)),
    ]


register(Contract(K + "Quantity.__hash__", qty_hash_spec,
                  lambda: [Scenario("self", lambda I: dict(self=qty_arg()))],
                  props=["C19"]))


def unit_hash_spec(ctx: Ctx):
    self = ctx.a("self")
    h = ctx.pre
    return [alloc(h, self.t)], [Case("symbol", TRUE, ensures=[
        ("hash-of-symbol", lambda cx, o: int_result(
            o, lambda k: k == unit_hash_term(h, self.t)))],
        result=lambda cx: VInt(unit_hash_term(h, self.t)))]


register(Contract(K + "Unit.__hash__", unit_hash_spec,
                  lambda: [Scenario("self", lambda I: dict(
                      self=sym_obj("self", "Unit")))],
                  # C02 / C17: units are keys of the operation cache; the model
                  # treats those keys by object identity, which is justified as
                  # long as distinct units hash by their distinct symbols
                  props=["C19", "C02", "C17"]))
