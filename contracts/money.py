"""Contracts for quantity.money: ExchangeRate (C09, C10), MoneyMeta (C08),
MoneyConverter (C11)."""
from __future__ import annotations

from dataclasses import dataclass
from typing import Any, Callable, List

import z3

from pyvc import model as M
from pyvc import spec as S
from pyvc import verify as VF
from pyvc.sym import NOTIMPL as NOTIMPL_V, Unsupported, VClass, MODE_ID
from .common import *
from .quantity_ops import qty_arg, res_rat

KM = "quantity.money:"
K = "quantity:"
MICRO = z3.RealVal("1/1000000")
MILLION = z3.RealVal(1000000)
TENTH = z3.RealVal("1/10")


# ---- views of an exchange rate ------------------------------------------------------
def er_unit(h, r):
    return h.get("ExchangeRate._unit_currency", r)


def er_term(h, r):
    return h.get("ExchangeRate._term_currency", r)


def er_mult(h, r):
    return h.get("ExchangeRate._unit_multiple", r)


def er_amnt(h, r):
    return h.get("ExchangeRate._term_amount", r)


def er_rate(h, r):
    return er_amnt(h, r) / er_mult(h, r)


def wf_currency(h, u):
    # currencies are base units: declared without definition
    return z3.And(wf_unit(h, u), is_currency(h, u), def_none(h, u))


def wf_rate(h, r):
    """representation invariant of an exchange rate (the normal form C09
    states): distinct currencies, multiple a power of ten >= 1, term amount
    >= 0.1 with at most six fractional digits"""
    m, t = er_mult(h, r), er_amnt(h, r)
    return z3.And(
        alloc(h, r), wf_currency(h, er_unit(h, r)),
        wf_currency(h, er_term(h, r)), er_unit(h, r) != er_term(h, r),
        m == S.p10(S.lg10(m)), S.lg10(m) >= 0, m >= 1,
        t >= TENTH, S.is_int(t * MILLION),
        h.get("ExchangeRate._unit_multiple#tag", r) == T_DEC,
        h.get("ExchangeRate._term_amount#tag", r) == T_DEC)


def stored_amount(T, U, m):
    """the true rate times the unit multiple, rounded to six digits with the
    default rounding mode"""
    return z3.ToReal(S.rnd(T * m / U * MILLION, S.DFLT_MODE)) / MILLION


# ---- loop invariant of the re-scaling loop in ExchangeRate.__init__ ---------------
@dataclass
class LoopSpec:
    modifies: List[str]
    invariant: Callable
    havoc: Callable


def _er_loop_inv(I, env):
    from pyvc.builtins_model import rv
    T, U = rv(env["term_amount"]), rv(env["unit_multiple"])
    mult, amnt = env["mult"], env["amnt"]
    I.path.assume(S.lg_fact(S.lg10(mult.t)))
    I.path.assume(S.lg_fact(S.lg10(mult.t) + 1))
    S.p10_facts(I.path, S.lg10(mult.t))
    return z3.And(amnt.t == T * mult.t / U, mult.t == S.p10(S.lg10(mult.t)),
                  S.lg10(mult.t) >= 0, mult.tag == T_DEC, exact_tag(amnt.tag))


def _er_loop_havoc(I, name, old):
    t = I.path.fresh(name, z3.RealSort())
    if name == "mult":
        return VRat(t, z3.IntVal(T_DEC))
    tag = I.path.fresh("tag", z3.IntSort())
    I.path.assume(exact_tag(tag))
    return VRat(t, tag)


VF.LOOP_SPECS[(KM + "ExchangeRate.__init__", 0)] = LoopSpec(
    ["mult", "amnt"], _er_loop_inv, _er_loop_havoc)


# ---- ExchangeRate.__init__(self, unit_currency, unit_multiple, term_currency, term_amount)
def er_init_spec(ctx: Ctx):
    self = ctx.a("self")
    uc, um = ctx.a("unit_currency"), ctx.a("unit_multiple")
    tc, ta = ctx.a("term_currency"), ctx.a("term_amount")
    h = ctx.pre
    for c in (uc, tc):
        if isinstance(c, VStr):
            raise Unsupported("currency given as ISO code (bounded stand-in)")
    if not (isinstance(uc, VObj) and uc.klass == "Unit") or \
            not (isinstance(tc, VObj) and tc.klass == "Unit"):
        return [], [Case("currency-of-wrong-type", TRUE, raises="TypeError",
                         modifies=["ExchangeRate.*"])]
    if isinstance(um, VStr) or isinstance(ta, VStr):
        raise Unsupported("numbers given as strings (bounded stand-in)")
    req = [alloc(h, self.t), wf_currency(h, uc.t), wf_currency(h, tc.t)]
    if not is_num(um) or not is_num(ta):
        return req, [Case("identical-currencies", uc.t == tc.t,
                          raises="ValueError"),
                     Case("not-a-number", uc.t != tc.t,
                          raises="TypeError|ValueError",
                          modifies=["ExchangeRate.*"])]
    U, T = num_value(um), num_value(ta)
    um_frac = isinstance(um, VRat) and um.known_tag() == T_FRAC
    um_float = isinstance(um, VRat) and um.known_tag() == T_FLOAT
    um_std = isinstance(um, VRat) and um.known_tag() == T_STDDEC
    ta_dec = isinstance(ta, VRat) and ta.known_tag() == T_DEC
    ta_std = isinstance(ta, VRat) and ta.known_tag() == T_STDDEC
    same = uc.t == tc.t
    repr_ok = S.dec_representable(U) if um_frac else TRUE
    um_ok = z3.And(repr_ok, S.is_int(U), U >= 1)
    if ta_dec:
        ta_zero = T == 0
    else:
        ta_zero = FALSE
    ta_ok = z3.And(T > 0, T >= MICRO)
    ok = z3.And(z3.Not(same), um_ok, ta_ok)
    ctx.axiom(z3.And(S.mag_fact(U), S.mag_fact(T)),
              "A2: magnitude = floor(log10(|x|))")
    k0 = S.mag(U) - z3.If(S.mag(T) + 1 < 0, S.mag(T) + 1, 0)
    ctx.axiom(z3.And(S.lg_fact(k0), S.lg_fact(k0 + 1)),
              "A3: lg10(p10(n)) == n")
    S.p10_facts(ctx.path, k0)
    S.p10_facts(ctx.path, S.mag(U))
    S.p10_facts(ctx.path, S.mag(U) + 1)

    def post(fn):
        return lambda c, o: fn(o.heap)
    m_ = lambda ph: er_mult(ph, self.t)
    t_ = lambda ph: er_amnt(ph, self.t)

    def build(c):
        hh = c.heap
        k = c.fresh("k10", z3.IntSort())
        c.path.assume(k >= 0)
        S.p10_facts(c.path, k)
        c.path.assume(S.lg_fact(k))
        m = S.p10(k)
        hh.set("ExchangeRate._unit_currency", self.t, uc.t)
        hh.set("ExchangeRate._term_currency", self.t, tc.t)
        hh.set("ExchangeRate._unit_multiple", self.t, m)
        hh.set("ExchangeRate._unit_multiple#tag", self.t, z3.IntVal(T_DEC))
        c.path.assume(S.rnd_fact(T * m / U * MILLION, S.DFLT_MODE))
        hh.set("ExchangeRate._term_amount", self.t, stored_amount(T, U, m))
        hh.set("ExchangeRate._term_amount#tag", self.t, z3.IntVal(T_DEC))
        return NONE
    mods = ["ExchangeRate.*"]
    cases = [
        Case("identical-currencies", same, raises="ValueError",
             props=["C09"]),
        Case("multiple-not-integral-or-below-one",
             z3.And(z3.Not(same), z3.Not(um_ok)), raises="ValueError",
             modifies=mods, props=["C09"]),
        Case("amount-zero-decimal",
             z3.And(z3.Not(same), um_ok, ta_zero), raises="OverflowError",
             modifies=mods, props=["C09"]),
        Case("amount-not-positive-or-too-small",
             z3.And(z3.Not(same), um_ok, z3.Not(ta_zero), z3.Not(ta_ok)),
             raises="ValueError", modifies=mods, props=["C09"]),
        Case("normal-form", ok, ensures=[
            ("currencies", post(lambda ph: z3.And(
                er_unit(ph, self.t) == uc.t, er_term(ph, self.t) == tc.t))),
            ("multiple-is-a-power-of-ten-not-below-one", post(lambda ph: z3.And(
                m_(ph) == S.p10(S.lg10(m_(ph))), S.lg10(m_(ph)) >= 0,
                m_(ph) >= 1,
                ph.get("ExchangeRate._unit_multiple#tag", self.t) == T_DEC))),
            ("amount-is-true-rate-times-multiple-rounded-to-6-digits",
             post(lambda ph: z3.And(
                 t_(ph) == stored_amount(T, U, m_(ph)),
                 ph.get("ExchangeRate._term_amount#tag", self.t) == T_DEC))),
            ("magnitude-at-least-minus-one", post(lambda ph: t_(ph) >= TENTH)),
            ("well-formed", post(lambda ph: wf_rate(ph, self.t))),
        ], modifies=mods, result=build, props=["C09"]),
    ]
    if um_std or um_float or ta_std:
        pass
    return req, cases


def _num(kind, name):
    return ALL_KINDS[kind](name, None)


def er_init_scenarios():
    out = []
    for uk in ("int", "Decimal", "Fraction"):
        for tk in ("Decimal", "Fraction", "int", "float"):
            out.append(Scenario(f"multiple-{uk}/amount-{tk}",
                                lambda I, uk=uk, tk=tk: dict(
                                    unit_currency=sym_obj("uc", "Unit"),
                                    unit_multiple=_num(uk, "um"),
                                    term_currency=sym_obj("tc", "Unit"),
                                    term_amount=_num(tk, "ta")),
                                constructing="ExchangeRate"))
    out.append(Scenario("currency-int", lambda I: dict(
        unit_currency=sym_int("uc"), unit_multiple=sym_int("um"),
        term_currency=sym_obj("tc", "Unit"), term_amount=sym_int("ta")),
        constructing="ExchangeRate"))
    return out


register(Contract(KM + "ExchangeRate.__init__", er_init_spec, er_init_scenarios,
                  props=["C09"],
                  notes="currencies / numbers given as strings: bounded "
                        "stand-in; the re-scaling loop is cut at its invariant"))


# ---- helpers for results that are fresh exchange rates ------------------------------
def rate_result(o: Outcome, pred):
    if not (isinstance(o.value, VObj) and o.value.klass == "ExchangeRate"):
        return FALSE
    return pred(o.value.t, o.heap)


def new_rate_case(ctx: Ctx, name, when, uc_t, tc_t, T, props=("C09",)):
    """the result is ExchangeRate(uc, 1, tc, T): a fresh well-formed rate from
    uc to tc whose stored amount is T*multiple rounded to six digits"""
    def build(c):
        r = c.alloc("ExchangeRate", "rate")
        hh = c.heap
        k = c.fresh("k10", z3.IntSort())
        c.path.assume(k >= 0)
        S.p10_facts(c.path, k)
        c.path.assume(S.lg_fact(k))
        m = S.p10(k)
        hh.set("ExchangeRate._unit_currency", r.t, uc_t)
        hh.set("ExchangeRate._term_currency", r.t, tc_t)
        hh.set("ExchangeRate._unit_multiple", r.t, m)
        hh.set("ExchangeRate._unit_multiple#tag", r.t, z3.IntVal(T_DEC))
        c.path.assume(S.rnd_fact(T * m / 1 * MILLION, S.DFLT_MODE))
        hh.set("ExchangeRate._term_amount", r.t, stored_amount(T, 1, m))
        hh.set("ExchangeRate._term_amount#tag", r.t, z3.IntVal(T_DEC))
        return r
    return Case(name, when, ensures=[
        ("fresh", lambda c, o: rate_result(o, lambda r, ph: fresh_in(c, ph, r))),
        ("direction", lambda c, o: rate_result(o, lambda r, ph: z3.And(
            er_unit(ph, r) == uc_t, er_term(ph, r) == tc_t))),
        ("amount-is-rate-times-multiple-rounded", lambda c, o: rate_result(
            o, lambda r, ph: er_amnt(ph, r) == stored_amount(T, 1, er_mult(ph, r)))),
        ("normal-form", lambda c, o: rate_result(o, lambda r, ph: wf_rate(ph, r))),
    ], result=build, props=list(props))


def _rate_self():
    return sym_obj("self", "ExchangeRate")


# ---- ExchangeRate.inverted(self) ------------------------------------------------------
def er_inverted_spec(ctx: Ctx):
    self = ctx.a("self")
    h = ctx.pre
    req = [wf_rate(h, self.t)]
    inv = er_mult(h, self.t) / er_amnt(h, self.t)
    # the inverse rate is representable: m / t <= m * 10, m a power of ten
    return req, [new_rate_case(ctx, "inverse", inv >= MICRO,
                               er_term(h, self.t), er_unit(h, self.t), inv),
                 Case("inverse-too-small", inv < MICRO, raises="ValueError",
                      props=["C09"])]


register(Contract(KM + "ExchangeRate.inverted", er_inverted_spec,
                  lambda: [Scenario("self", lambda I: dict(self=_rate_self()))],
                  props=["C09"]))


# ---- ExchangeRate.__eq__ / __hash__ ---------------------------------------------------
def er_eq_spec(ctx: Ctx):
    self, other = ctx.a("self"), ctx.a("other")
    h = ctx.pre
    req = [wf_rate(h, self.t)]

    def rb(c):
        return VBool(c.fresh("eq", z3.BoolSort()))
    if isinstance(other, VObj) and other.klass == "ExchangeRate":
        req.append(wf_rate(h, other.t))
        same = z3.And(er_unit(h, self.t) == er_unit(h, other.t),
                      er_term(h, self.t) == er_term(h, other.t),
                      er_rate(h, self.t) == er_rate(h, other.t))
        return req, [Case("quotations", TRUE, ensures=[
            ("equal-quotation", lambda c, o: bool_result(
                o, lambda b: b == same))], result=rb, props=["C09", "C19"])]
    return req, [Case("not-a-rate", TRUE, ensures=[
        ("false", lambda c, o: bool_result(o, lambda b: z3.Not(b)))],
        result=rb, props=["C09"])]


def _rate_other(kinds):
    def mk():
        out = []
        for k in kinds:
            if k == "Rate":
                f = lambda n, I: sym_obj(n, "ExchangeRate")
            else:
                f = ALL_KINDS[k]
            out.append(Scenario(f"other-{k}", lambda I, f=f: dict(
                self=_rate_self(), other=f("other", I))))
        return out
    return mk


register(Contract(KM + "ExchangeRate.__eq__", er_eq_spec,
                  _rate_other(["Rate", "int", "Qty", "None"]),
                  props=["C09", "C19"]))


def er_hash_spec(ctx: Ctx):
    self = ctx.a("self")
    h = ctx.pre
    hu = S.hash_str(symbol(h, er_unit(h, self.t)))
    ht = S.hash_str(symbol(h, er_term(h, self.t)))
    val = S.hash_pair(hu, S.hash_pair(ht, S.hash_pair(
        S.hash_num(er_rate(h, self.t)), S.HASH_NIL)))
    return [wf_rate(h, self.t)], [Case("quotation", TRUE, ensures=[
        ("hash-of-quotation", lambda c, o: int_result(o, lambda k: k == val))],
        result=lambda c: VInt(val), props=["C19", "C09"])]


register(Contract(KM + "ExchangeRate.__hash__", er_hash_spec,
                  lambda: [Scenario("self", lambda I: dict(self=_rate_self()))],
                  props=["C19", "C09"]))


# ---- compound money quantities (price per mass etc.) -----------------------------------
def wf_compound(h, q):
    """a quantity of a type without reference unit whose unit has a definition
    (EUR/kg): outside wf_unit, needed by C10 only"""
    from .term import unit_den
    u = unit_of(h, q)
    c = cls_of(h, q)
    n, v = unit_den(h, u)
    return z3.And(alloc(h, q), alloc(h, u), alloc(h, c), c == qty_cls(h, u),
                  c != M.C_QUANTITY, c != M.C_MONEY, wf_cls(h, c),
                  ref_none(h, c), cls_quantum_none(h, c), z3.Not(is_currency(h, u)),
                  exact_tag(amount_tag(h, q)),
                  z3.Not(def_none(h, u)),
                  alloc(h, h.get("Unit._definition", u)),
                  n == scale(u), v == dim(u), n > 0)


def _mul_like(sign):
    """ExchangeRate.__mul__ (sign=+1: money * rate) / __rtruediv__ (sign=-1:
    money / rate)"""
    def spec(ctx: Ctx):
        from .registry import resolve, dirinv_at, reg_first, den
        from .term import unit_den, vec_add, vec_scale
        self, other = ctx.a("self"), ctx.a("other")
        h = ctx.pre
        req = [wf_rate(h, self.t)]
        uc, tc = er_unit(h, self.t), er_term(h, self.t)
        src, dst = (uc, tc) if sign > 0 else (tc, uc)
        factor = er_rate(h, self.t) if sign > 0 else \
            er_mult(h, self.t) / er_amnt(h, self.t)
        if isinstance(other, VObj) and other.klass == "Qty":
            q = other.t
            is_money = cls_of(h, q) == M.C_MONEY
            req.append(z3.Implies(is_money, wf_qty(h, q)))
            req.append(z3.Implies(z3.Not(is_money), wf_compound(h, q)))
            a = amount(h, q)
            exact = a * factor
            ctx.axiom(q_round_facts(h, exact, dst))

            def build_money(c):
                return new_qty(c, M.C_MONEY, q_round(c.pre, exact, dst),
                               fresh_exact_tag(c), dst)
            cases = [
                Case("money/matching-currency",
                     z3.And(is_money, unit_of(h, q) == src), ensures=[
                         ("money-in-target-currency", lambda c, o: qty_result(
                             o, lambda r, ph: z3.And(
                                 cls_of(ph, r) == M.C_MONEY,
                                 unit_of(ph, r) == dst))),
                         ("exact-product-rounded-once", lambda c, o: qty_result(
                             o, lambda r, ph: amount(ph, r) ==
                             q_round(c.pre, exact, dst))),
                     ], result=build_money, props=["C10", "C05"]),
                Case("money/other-currency",
                     z3.And(is_money, unit_of(h, q) != src),
                     raises="ValueError", props=["C10"]),
            ]
            # compound unit: replace the currency inside the unit
            u = unit_of(h, q)
            n0, v0 = unit_den(h, u)
            n = n0
            v = vec_add(v0, vec_add(M.vunit(dst), vec_scale(M.vunit(src), -1)))
            found, has1, zero, has2, d1, d2 = resolve(h, n, v)
            req.append(z3.Implies(z3.Not(is_money), z3.And(
                dirinv_at(h, d1), dirinv_at(h, d2),
                wf_unit(h, src), wf_unit(h, dst))))
            ru = z3.If(has1, reg_first(h, M.G_TERMMAP, d1),
                       reg_first(h, M.G_TERMMAP, d2))
            a0 = z3.If(has1, z3.RealVal(1), n)
            usable = z3.And(found, z3.Not(z3.And(z3.Not(has1), zero)),
                            qty_cls(h, ru) == cls_of(h, q))

            def build_cmp(c):
                return new_qty(c, cls_of(h, q), a0 * exact, fresh_exact_tag(c),
                               ru)
            cases += [
                Case("compound/target-unit-declared",
                     z3.And(z3.Not(is_money), usable), ensures=[
                         ("same-type-currency-replaced", lambda c, o: qty_result(
                             o, lambda r, ph: z3.And(
                                 cls_of(ph, r) == cls_of(h, q),
                                 unit_of(ph, r) == ru))),
                         ("amount-scaled-by-exactly-the-rate",
                          lambda c, o: qty_result(
                              o, lambda r, ph: amount(ph, r) == a0 * exact)),
                     ], result=build_cmp, props=["C10"]),
                Case("compound/no-target-unit",
                     z3.And(z3.Not(is_money), z3.Not(usable)),
                     raises="QuantityError", props=["C10"]),
            ]
            return req, cases
        if sign > 0 and isinstance(other, VObj) and \
                other.klass == "ExchangeRate":
            return req, rate_times_rate(ctx, self, other, req)
        return req, [Case("not-supported", TRUE, ensures=[
            ("notimplemented", lambda c, o: is_notimpl(o))],
            result=lambda c: NOTIMPL_V, props=["C10", "C09"])]
    return spec


def rate_times_rate(ctx, self, other, req):
    h = ctx.pre
    req.append(wf_rate(h, other.t))
    su, st = er_unit(h, self.t), er_term(h, self.t)
    ou, ot = er_unit(h, other.t), er_term(h, other.t)
    prod = er_rate(h, self.t) * er_rate(h, other.t)
    a = su == ot            # other: x -> su, self: su -> st   => x -> st
    b = z3.And(z3.Not(a), st == ou)     # self: su -> st, other: st -> y
    ok = prod >= MICRO
    return [
        new_rate_case(ctx, "chain/other-then-self", z3.And(a, ou != st, ok),
                      ou, st, prod),
        new_rate_case(ctx, "chain/self-then-other", z3.And(b, su != ot, ok),
                      su, ot, prod),
        Case("chain/result-currencies-identical",
             z3.Or(z3.And(a, ou == st), z3.And(b, su == ot)),
             raises="ValueError", props=["C09"]),
        Case("chain/too-small", z3.And(z3.Or(z3.And(a, ou != st),
                                             z3.And(b, su != ot)),
                                       z3.Not(ok)),
             raises="ValueError", props=["C09"]),
        Case("no-shared-currency", z3.And(z3.Not(a), z3.Not(b)),
             raises="ValueError", props=["C09"]),
    ]


register(Contract(KM + "ExchangeRate.__mul__", _mul_like(1),
                  _rate_other(["Qty", "Rate", "int", "Unit", "None"]),
                  props=["C09", "C10", "C05"]))
register(Contract(KM + "ExchangeRate.__rmul__", _mul_like(1),
                  _rate_other(["Qty", "Rate", "int", "Unit", "None"]),
                  props=["C09", "C10", "C05"]))
register(Contract(KM + "ExchangeRate.__rtruediv__", _mul_like(-1),
                  _rate_other(["Qty", "Rate", "int", "None"]),
                  props=["C10", "C05"]))


def er_truediv_spec(ctx: Ctx):
    self, other = ctx.a("self"), ctx.a("other")
    h = ctx.pre
    req = [wf_rate(h, self.t)]
    if not (isinstance(other, VObj) and other.klass == "ExchangeRate"):
        return req, [Case("not-supported", TRUE, ensures=[
            ("notimplemented", lambda c, o: is_notimpl(o))],
            result=lambda c: NOTIMPL_V, props=["C09"])]
    req.append(wf_rate(h, other.t))
    su, st = er_unit(h, self.t), er_term(h, self.t)
    ou, ot = er_unit(h, other.t), er_term(h, other.t)
    quot = er_rate(h, self.t) / er_rate(h, other.t)
    a = su == ou                       # common unit currency: ot -> st
    b = z3.And(z3.Not(a), st == ot)    # common term currency: su -> ou
    ok = quot >= MICRO
    return req, [
        new_rate_case(ctx, "same-unit-currency", z3.And(a, ot != st, ok),
                      ot, st, quot),
        new_rate_case(ctx, "same-term-currency", z3.And(b, su != ou, ok),
                      su, ou, quot),
        Case("result-currencies-identical",
             z3.Or(z3.And(a, ot == st), z3.And(b, su == ou)),
             raises="ValueError", props=["C09"]),
        Case("too-small", z3.And(z3.Or(z3.And(a, ot != st), z3.And(b, su != ou)),
                                 z3.Not(ok)), raises="ValueError",
             props=["C09"]),
        Case("no-shared-currency", z3.And(z3.Not(a), z3.Not(b)),
             raises="ValueError", props=["C09"]),
    ]


register(Contract(KM + "ExchangeRate.__truediv__", er_truediv_spec,
                  _rate_other(["Rate", "int", "Qty", "None"]), props=["C09"]))
