"""Contracts for quantity.money: ExchangeRate (C09, C10), MoneyMeta (C08),
MoneyConverter (C11)."""
from __future__ import annotations

from dataclasses import dataclass
from typing import Any, Callable, List

import z3

from pyvc import model as M
from pyvc import spec as S
from pyvc import verify as VF
from pyvc.sym import NOTIMPL as NOTIMPL_V, Unsupported, VClass, MODE_ID
from .common import *
from .quantity_ops import qty_arg, res_rat

KM = "quantity.money:"
K = "quantity:"
MICRO = z3.RealVal("1/1000000")
MILLION = z3.RealVal(1000000)
TENTH = z3.RealVal("1/10")


# ---- views of an exchange rate ------------------------------------------------------
def er_unit(h, r):
    return h.get("ExchangeRate._unit_currency", r)


def er_term(h, r):
    return h.get("ExchangeRate._term_currency", r)


def er_mult(h, r):
    return h.get("ExchangeRate._unit_multiple", r)


def er_amnt(h, r):
    return h.get("ExchangeRate._term_amount", r)


def er_rate(h, r):
    return er_amnt(h, r) / er_mult(h, r)


def wf_currency(h, u):
    # currencies are base units: declared without definition
    return z3.And(wf_unit(h, u), is_currency(h, u), def_none(h, u))


def wf_rate(h, r):
    """representation invariant of an exchange rate (the normal form C09
    states): distinct currencies, multiple a power of ten >= 1, term amount
    >= 0.1 with at most six fractional digits"""
    return z3.And(wf_rate_core(h, r), wf_currency(h, er_unit(h, r)),
                  wf_currency(h, er_term(h, r)))


def wf_rate_core(h, r):
    m, t = er_mult(h, r), er_amnt(h, r)
    return z3.And(
        alloc(h, r), alloc(h, er_unit(h, r)), alloc(h, er_term(h, r)),
        er_unit(h, r) != er_term(h, r),
        m == S.p10(S.lg10(m)), S.lg10(m) >= 0, m >= 1,
        t >= TENTH,
        h.get("ExchangeRate._unit_multiple#tag", r) == T_DEC,
        h.get("ExchangeRate._term_amount#tag", r) == T_DEC)


def stored_amount(T, U, m):
    """the true rate times the unit multiple, rounded to six digits with the
    default rounding mode"""
    return z3.ToReal(S.rnd(T * m / U * MILLION, S.DFLT_MODE)) / MILLION


# ---- loop invariant of the re-scaling loop in ExchangeRate.__init__ ---------------
@dataclass
class LoopSpec:
    modifies: List[str]
    invariant: Callable
    havoc: Callable


def _er_loop_inv(I, env):
    from pyvc.builtins_model import rv
    T, U = rv(env["term_amount"]), rv(env["unit_multiple"])
    mult, amnt = env["mult"], env["amnt"]
    I.path.assume(S.lg_fact(S.lg10(mult.t)))
    I.path.assume(S.lg_fact(S.lg10(mult.t) + 1))
    S.p10_facts(I.path, S.lg10(mult.t))
    return z3.And(amnt.t == T * mult.t / U, mult.t == S.p10(S.lg10(mult.t)),
                  S.lg10(mult.t) >= 0, mult.tag == T_DEC, exact_tag(amnt.tag))


def _er_loop_havoc(I, name, old):
    t = I.path.fresh(name, z3.RealSort())
    if name == "mult":
        return VRat(t, z3.IntVal(T_DEC))
    tag = I.path.fresh("tag", z3.IntSort())
    I.path.assume(exact_tag(tag))
    return VRat(t, tag)


VF.LOOP_SPECS[(KM + "ExchangeRate.__init__", 0)] = LoopSpec(
    ["mult", "amnt"], _er_loop_inv, _er_loop_havoc)


# ---- ExchangeRate.__init__(self, unit_currency, unit_multiple, term_currency, term_amount)
def er_init_spec(ctx: Ctx):
    self = ctx.a("self")
    uc, um = ctx.a("unit_currency"), ctx.a("unit_multiple")
    tc, ta = ctx.a("term_currency"), ctx.a("term_amount")
    h = ctx.pre
    for c in (uc, tc):
        if isinstance(c, VStr):
            raise Unsupported("currency given as ISO code (bounded stand-in)")
    if not (isinstance(uc, VObj) and uc.klass == "Unit") or \
            not (isinstance(tc, VObj) and tc.klass == "Unit"):
        return [], [Case("currency-of-wrong-type", TRUE, raises="TypeError",
                         modifies=["ExchangeRate.*"])]
    if isinstance(um, VStr) or isinstance(ta, VStr):
        raise Unsupported("numbers given as strings (bounded stand-in)")
    req = [alloc(h, self.t), wf_currency(h, uc.t), wf_currency(h, tc.t)]
    if not is_num(um) or not is_num(ta):
        return req, [Case("identical-currencies", uc.t == tc.t,
                          raises="ValueError"),
                     Case("not-a-number", uc.t != tc.t,
                          raises="TypeError|ValueError",
                          modifies=["ExchangeRate.*"])]
    U, T = num_value(um), num_value(ta)
    um_frac = isinstance(um, VRat) and um.known_tag() == T_FRAC
    um_float = isinstance(um, VRat) and um.known_tag() == T_FLOAT
    um_std = isinstance(um, VRat) and um.known_tag() == T_STDDEC
    ta_dec = isinstance(ta, VRat) and ta.known_tag() == T_DEC
    ta_std = isinstance(ta, VRat) and ta.known_tag() == T_STDDEC
    same = uc.t == tc.t
    repr_ok = S.dec_representable(U) if um_frac else TRUE
    um_ok = z3.And(repr_ok, S.is_int(U), U >= 1)
    if ta_dec:
        ta_zero = T == 0
    else:
        ta_zero = FALSE
    ta_ok = z3.And(T > 0, T >= MICRO)
    ok = z3.And(z3.Not(same), um_ok, ta_ok)
    ctx.axiom(z3.And(S.mag_fact(U), S.mag_fact(T)),
              "A2: magnitude = floor(log10(|x|))")
    k0 = S.mag(U) - z3.If(S.mag(T) + 1 < 0, S.mag(T) + 1, 0)
    ctx.axiom(z3.And(S.lg_fact(k0), S.lg_fact(k0 + 1)),
              "A3: lg10(p10(n)) == n")
    S.p10_facts(ctx.path, k0)
    S.p10_facts(ctx.path, S.mag(U))
    S.p10_facts(ctx.path, S.mag(U) + 1)

    def post(fn):
        return lambda c, o: fn(o.heap)
    m_ = lambda ph: er_mult(ph, self.t)
    t_ = lambda ph: er_amnt(ph, self.t)

    def build(c):
        hh = c.heap
        k = c.fresh("k10", z3.IntSort())
        c.path.assume(k >= 0)
        S.p10_facts(c.path, k)
        c.path.assume(S.lg_fact(k))
        m = S.p10(k)
        hh.set("ExchangeRate._unit_currency", self.t, uc.t)
        hh.set("ExchangeRate._term_currency", self.t, tc.t)
        hh.set("ExchangeRate._unit_multiple", self.t, m)
        hh.set("ExchangeRate._unit_multiple#tag", self.t, z3.IntVal(T_DEC))
        c.path.assume(S.rnd_fact(T * m / U * MILLION, S.DFLT_MODE))
        hh.set("ExchangeRate._term_amount", self.t, stored_amount(T, U, m))
        hh.set("ExchangeRate._term_amount#tag", self.t, z3.IntVal(T_DEC))
        return NONE
    mods = ["ExchangeRate.*"]
    cases = [
        Case("identical-currencies", same, raises="ValueError",
             props=["C09"]),
        Case("multiple-not-integral-or-below-one",
             z3.And(z3.Not(same), z3.Not(um_ok)), raises="ValueError",
             modifies=mods, props=["C09"]),
        Case("amount-zero-decimal",
             z3.And(z3.Not(same), um_ok, ta_zero), raises="OverflowError",
             modifies=mods, props=["C09"]),
        Case("amount-not-positive-or-too-small",
             z3.And(z3.Not(same), um_ok, z3.Not(ta_zero), z3.Not(ta_ok)),
             raises="ValueError", modifies=mods, props=["C09"]),
        Case("normal-form", ok, ensures=[
            ("currencies", post(lambda ph: z3.And(
                er_unit(ph, self.t) == uc.t, er_term(ph, self.t) == tc.t))),
            ("multiple-is-a-power-of-ten-not-below-one", post(lambda ph: z3.And(
                m_(ph) == S.p10(S.lg10(m_(ph))), S.lg10(m_(ph)) >= 0,
                m_(ph) >= 1,
                ph.get("ExchangeRate._unit_multiple#tag", self.t) == T_DEC))),
            ("amount-is-true-rate-times-multiple-rounded-to-6-digits",
             post(lambda ph: z3.And(
                 t_(ph) == stored_amount(T, U, m_(ph)),
                 ph.get("ExchangeRate._term_amount#tag", self.t) == T_DEC))),
            ("magnitude-at-least-minus-one", post(lambda ph: t_(ph) >= TENTH)),
            ("at-most-six-fractional-digits",
             post(lambda ph: S.is_int(t_(ph) * MILLION))),
            ("well-formed", post(lambda ph: wf_rate(ph, self.t))),
        ], modifies=mods, result=build, props=["C09"]),
    ]
    if um_std or um_float or ta_std:
        pass
    return req, cases


def _num(kind, name):
    return ALL_KINDS[kind](name, None)


def er_init_scenarios():
    out = []
    for uk in ("int", "Decimal", "Fraction"):
        for tk in ("Decimal", "Fraction", "int", "float"):
            out.append(Scenario(f"multiple-{uk}/amount-{tk}",
                                lambda I, uk=uk, tk=tk: dict(
                                    unit_currency=sym_obj("uc", "Unit"),
                                    unit_multiple=_num(uk, "um"),
                                    term_currency=sym_obj("tc", "Unit"),
                                    term_amount=_num(tk, "ta")),
                                constructing="ExchangeRate"))
    out.append(Scenario("currency-int", lambda I: dict(
        unit_currency=sym_int("uc"), unit_multiple=sym_int("um"),
        term_currency=sym_obj("tc", "Unit"), term_amount=sym_int("ta")),
        constructing="ExchangeRate"))
    return out


register(Contract(KM + "ExchangeRate.__init__", er_init_spec, er_init_scenarios,
                  props=["C09"],
                  notes="currencies / numbers given as strings: bounded "
                        "stand-in; the re-scaling loop is cut at its invariant"))


# ---- helpers for results that are fresh exchange rates ------------------------------
def rate_result(o: Outcome, pred):
    if not (isinstance(o.value, VObj) and o.value.klass == "ExchangeRate"):
        return FALSE
    return pred(o.value.t, o.heap)


def new_rate_case(ctx: Ctx, name, when, uc_t, tc_t, T, props=("C09",)):
    """the result is ExchangeRate(uc, 1, tc, T): a fresh well-formed rate from
    uc to tc whose stored amount is T*multiple rounded to six digits"""
    def build(c):
        r = c.alloc("ExchangeRate", "rate")
        hh = c.heap
        k = c.fresh("k10", z3.IntSort())
        c.path.assume(k >= 0)
        S.p10_facts(c.path, k)
        c.path.assume(S.lg_fact(k))
        m = S.p10(k)
        hh.set("ExchangeRate._unit_currency", r.t, uc_t)
        hh.set("ExchangeRate._term_currency", r.t, tc_t)
        hh.set("ExchangeRate._unit_multiple", r.t, m)
        hh.set("ExchangeRate._unit_multiple#tag", r.t, z3.IntVal(T_DEC))
        c.path.assume(S.rnd_fact(T * m / 1 * MILLION, S.DFLT_MODE))
        hh.set("ExchangeRate._term_amount", r.t, stored_amount(T, 1, m))
        hh.set("ExchangeRate._term_amount#tag", r.t, z3.IntVal(T_DEC))
        return r
    return Case(name, when, ensures=[
        ("fresh", lambda c, o: rate_result(o, lambda r, ph: fresh_in(c, ph, r))),
        ("direction", lambda c, o: rate_result(o, lambda r, ph: z3.And(
            er_unit(ph, r) == uc_t, er_term(ph, r) == tc_t))),
        ("amount-is-rate-times-multiple-rounded", lambda c, o: rate_result(
            o, lambda r, ph: er_amnt(ph, r) == stored_amount(T, 1, er_mult(ph, r)))),
        ("normal-form", lambda c, o: rate_result(o, lambda r, ph: wf_rate(ph, r))),
    ], result=build, props=list(props))


def _rate_self():
    return sym_obj("self", "ExchangeRate")


# ---- ExchangeRate.inverted(self) ------------------------------------------------------
def er_inverted_spec(ctx: Ctx):
    self = ctx.a("self")
    h = ctx.pre
    req = [wf_rate(h, self.t)]
    inv = er_mult(h, self.t) / er_amnt(h, self.t)
    # the inverse rate is representable: m / t <= m * 10, m a power of ten
    return req, [new_rate_case(ctx, "inverse", inv >= MICRO,
                               er_term(h, self.t), er_unit(h, self.t), inv),
                 Case("inverse-too-small", inv < MICRO, raises="ValueError",
                      props=["C09"])]


register(Contract(KM + "ExchangeRate.inverted", er_inverted_spec,
                  lambda: [Scenario("self", lambda I: dict(self=_rate_self()))],
                  props=["C09"]))


# ---- ExchangeRate.__eq__ / __hash__ ---------------------------------------------------
def er_eq_spec(ctx: Ctx):
    self, other = ctx.a("self"), ctx.a("other")
    h = ctx.pre
    req = [wf_rate(h, self.t)]

    def rb(c):
        return VBool(c.fresh("eq", z3.BoolSort()))
    if isinstance(other, VObj) and other.klass == "ExchangeRate":
        req.append(wf_rate(h, other.t))
        same = z3.And(er_unit(h, self.t) == er_unit(h, other.t),
                      er_term(h, self.t) == er_term(h, other.t),
                      er_rate(h, self.t) == er_rate(h, other.t))
        return req, [Case("quotations", TRUE, ensures=[
            ("equal-quotation", lambda c, o: bool_result(
                o, lambda b: b == same))], result=rb, props=["C09", "C19"])]
    return req, [Case("not-a-rate", TRUE, ensures=[
        ("false", lambda c, o: bool_result(o, lambda b: z3.Not(b)))],
        result=rb, props=["C09"])]


def _rate_other(kinds):
    def mk():
        out = []
        for k in kinds:
            if k == "Rate":
                f = lambda n, I: sym_obj(n, "ExchangeRate")
            else:
                f = ALL_KINDS[k]
            out.append(Scenario(f"other-{k}", lambda I, f=f: dict(
                self=_rate_self(), other=f("other", I))))
        return out
    return mk


register(Contract(KM + "ExchangeRate.__eq__", er_eq_spec,
                  _rate_other(["Rate", "int", "Qty", "None"]),
                  props=["C09", "C19"]))


def er_hash_spec(ctx: Ctx):
    self = ctx.a("self")
    h = ctx.pre
    hu = S.hash_str(symbol(h, er_unit(h, self.t)))
    ht = S.hash_str(symbol(h, er_term(h, self.t)))
    val = S.hash_pair(hu, S.hash_pair(ht, S.hash_pair(
        S.hash_num(er_rate(h, self.t)), S.HASH_NIL)))
    return [wf_rate(h, self.t)], [Case("quotation", TRUE, ensures=[
        ("hash-of-quotation", lambda c, o: int_result(o, lambda k: k == val))],
        result=lambda c: VInt(val), props=["C19", "C09"])]


register(Contract(KM + "ExchangeRate.__hash__", er_hash_spec,
                  lambda: [Scenario("self", lambda I: dict(self=_rate_self()))],
                  props=["C19", "C09"]))


# ---- compound money quantities (price per mass etc.) -----------------------------------
def wf_compound(h, q):
    """a quantity of a type without reference unit whose unit has a definition
    (EUR/kg): outside wf_unit, needed by C10 only"""
    from .term import unit_den
    u = unit_of(h, q)
    c = cls_of(h, q)
    n, v = unit_den(h, u)
    return z3.And(alloc(h, q), alloc(h, u), alloc(h, c), c == qty_cls(h, u),
                  c != M.C_QUANTITY, c != M.C_MONEY, wf_cls(h, c),
                  ref_none(h, c), cls_quantum_none(h, c), z3.Not(is_currency(h, u)),
                  exact_tag(amount_tag(h, q)),
                  z3.Not(def_none(h, u)),
                  alloc(h, h.get("Unit._definition", u)),
                  n == scale(u), v == dim(u), n > 0)


def _mul_like(sign):
    """ExchangeRate.__mul__ (sign=+1: money * rate) / __rtruediv__ (sign=-1:
    money / rate)"""
    def spec(ctx: Ctx):
        from .registry import resolve, dirinv_at, reg_first, den
        from .term import unit_den, vec_add, vec_scale
        self, other = ctx.a("self"), ctx.a("other")
        h = ctx.pre
        req = [wf_rate(h, self.t)]
        uc, tc = er_unit(h, self.t), er_term(h, self.t)
        src, dst = (uc, tc) if sign > 0 else (tc, uc)
        factor = er_rate(h, self.t) if sign > 0 else \
            er_mult(h, self.t) / er_amnt(h, self.t)
        if isinstance(other, VObj) and other.klass == "Qty":
            q = other.t
            is_money = cls_of(h, q) == M.C_MONEY
            req.append(z3.Implies(is_money, wf_qty(h, q)))
            req.append(z3.Implies(z3.Not(is_money), wf_compound(h, q)))
            a = amount(h, q)
            exact = a * factor
            ctx.axiom(q_round_facts(h, exact, dst))

            def build_money(c):
                return new_qty(c, M.C_MONEY, q_round(c.pre, exact, dst),
                               fresh_exact_tag(c), dst)
            cases = [
                Case("money/matching-currency",
                     z3.And(is_money, unit_of(h, q) == src), ensures=[
                         ("money-in-target-currency", lambda c, o: qty_result(
                             o, lambda r, ph: z3.And(
                                 cls_of(ph, r) == M.C_MONEY,
                                 unit_of(ph, r) == dst))),
                         ("exact-product-rounded-once", lambda c, o: qty_result(
                             o, lambda r, ph: amount(ph, r) ==
                             q_round(c.pre, exact, dst))),
                     ], result=build_money, props=["C10", "C05"]),
                Case("money/other-currency",
                     z3.And(is_money, unit_of(h, q) != src),
                     raises="ValueError", props=["C10"]),
            ]
            # compound unit: replace the currency inside the unit
            u = unit_of(h, q)
            n0, v0 = unit_den(h, u)
            n = n0
            v = vec_add(v0, vec_add(M.vunit(dst), vec_scale(M.vunit(src), -1)))
            found, has1, zero, has2, d1, d2 = resolve(h, n, v)
            req.append(z3.Implies(z3.Not(is_money), z3.And(
                dirinv_at(h, d1), dirinv_at(h, d2),
                wf_unit(h, src), wf_unit(h, dst))))
            ru = z3.If(has1, reg_first(h, M.G_TERMMAP, d1),
                       reg_first(h, M.G_TERMMAP, d2))
            a0 = z3.If(has1, z3.RealVal(1), n)
            usable = z3.And(found, z3.Not(z3.And(z3.Not(has1), zero)),
                            qty_cls(h, ru) == cls_of(h, q))

            def build_cmp(c):
                return new_qty(c, cls_of(h, q), a0 * exact, fresh_exact_tag(c),
                               ru)
            cases += [
                Case("compound/target-unit-declared",
                     z3.And(z3.Not(is_money), usable), ensures=[
                         ("same-type-currency-replaced", lambda c, o: qty_result(
                             o, lambda r, ph: z3.And(
                                 cls_of(ph, r) == cls_of(h, q),
                                 unit_of(ph, r) == ru))),
                         ("amount-scaled-by-exactly-the-rate",
                          lambda c, o: qty_result(
                              o, lambda r, ph: amount(ph, r) == a0 * exact)),
                     ], result=build_cmp, props=["C10"]),
                Case("compound/no-target-unit",
                     z3.And(z3.Not(is_money), z3.Not(usable)),
                     raises="QuantityError", props=["C10"]),
            ]
            return req, cases
        if sign > 0 and isinstance(other, VObj) and \
                other.klass == "ExchangeRate":
            return req, rate_times_rate(ctx, self, other, req)
        return req, [Case("not-supported", TRUE, ensures=[
            ("notimplemented", lambda c, o: is_notimpl(o))],
            result=lambda c: NOTIMPL_V, props=["C10", "C09"])]
    return spec


def rate_times_rate(ctx, self, other, req):
    h = ctx.pre
    req.append(wf_rate(h, other.t))
    su, st = er_unit(h, self.t), er_term(h, self.t)
    ou, ot = er_unit(h, other.t), er_term(h, other.t)
    prod = er_rate(h, self.t) * er_rate(h, other.t)
    a = su == ot            # other: x -> su, self: su -> st   => x -> st
    b = z3.And(z3.Not(a), st == ou)     # self: su -> st, other: st -> y
    ok = prod >= MICRO
    return [
        new_rate_case(ctx, "chain/other-then-self", z3.And(a, ou != st, ok),
                      ou, st, prod),
        new_rate_case(ctx, "chain/self-then-other", z3.And(b, su != ot, ok),
                      su, ot, prod),
        Case("chain/result-currencies-identical",
             z3.Or(z3.And(a, ou == st), z3.And(b, su == ot)),
             raises="ValueError", props=["C09"]),
        Case("chain/too-small", z3.And(z3.Or(z3.And(a, ou != st),
                                             z3.And(b, su != ot)),
                                       z3.Not(ok)),
             raises="ValueError", props=["C09"]),
        Case("no-shared-currency", z3.And(z3.Not(a), z3.Not(b)),
             raises="ValueError", props=["C09"]),
    ]


register(Contract(KM + "ExchangeRate.__mul__", _mul_like(1),
                  _rate_other(["Qty", "Rate", "int", "Unit", "None"]),
                  props=["C09", "C10", "C05"]))
register(Contract(KM + "ExchangeRate.__rmul__", _mul_like(1),
                  _rate_other(["Qty", "Rate", "int", "Unit", "None"]),
                  props=["C09", "C10", "C05"]))
register(Contract(KM + "ExchangeRate.__rtruediv__", _mul_like(-1),
                  _rate_other(["Qty", "Rate", "int", "None"]),
                  props=["C10", "C05"]))


def er_truediv_spec(ctx: Ctx):
    self, other = ctx.a("self"), ctx.a("other")
    h = ctx.pre
    req = [wf_rate(h, self.t)]
    if not (isinstance(other, VObj) and other.klass == "ExchangeRate"):
        return req, [Case("not-supported", TRUE, ensures=[
            ("notimplemented", lambda c, o: is_notimpl(o))],
            result=lambda c: NOTIMPL_V, props=["C09"])]
    req.append(wf_rate(h, other.t))
    su, st = er_unit(h, self.t), er_term(h, self.t)
    ou, ot = er_unit(h, other.t), er_term(h, other.t)
    quot = er_rate(h, self.t) / er_rate(h, other.t)
    a = su == ou                       # common unit currency: ot -> st
    b = z3.And(z3.Not(a), st == ot)    # common term currency: su -> ou
    ok = quot >= MICRO
    return req, [
        new_rate_case(ctx, "same-unit-currency", z3.And(a, ot != st, ok),
                      ot, st, quot),
        new_rate_case(ctx, "same-term-currency", z3.And(b, su != ou, ok),
                      su, ou, quot),
        Case("result-currencies-identical",
             z3.Or(z3.And(a, ot == st), z3.And(b, su == ou)),
             raises="ValueError", props=["C09"]),
        Case("too-small", z3.And(z3.Or(z3.And(a, ot != st), z3.And(b, su != ou)),
                                 z3.Not(ok)), raises="ValueError",
             props=["C09"]),
        Case("no-shared-currency", z3.And(z3.Not(a), z3.Not(b)),
             raises="ValueError", props=["C09"]),
    ]


register(Contract(KM + "ExchangeRate.__truediv__", er_truediv_spec,
                  _rate_other(["Rate", "int", "Qty", "None"]), props=["C09"]))


# =============================================================================
# MoneyConverter (C11)
def er_accepts(uc_t, um: V, tc_t, ta: V):
    """ExchangeRate(uc, um, tc, ta) is accepted (the guard of its 'normal-form'
    case) -- numbers only"""
    if not is_num(um) or not is_num(ta):
        return FALSE
    U, T = num_value(um), num_value(ta)
    um_frac = isinstance(um, VRat) and um.known_tag() == T_FRAC
    repr_ok = S.dec_representable(U) if um_frac else TRUE
    return z3.And(uc_t != tc_t, repr_ok, S.is_int(U), U >= 1, T > 0, T >= MICRO)


def mc_base(h, c):
    return h.get("MoneyConverter._base_currency", c)


def mc_rates(h, c):
    return h.get("MoneyConverter._rate_dict", c)


def mc_kind_none(h, c):
    return h.get("MoneyConverter._type_of_validity#none", c)


def mc_kind(h, c):
    return h.get("MoneyConverter._type_of_validity", c)


def rkey(v, cur):
    return M.RateKey.mk_RateKey(v, cur)


def rates_has(h, c, key):
    return z3.Select(h.get("Dict:rate.$dom", mc_rates(h, c)), key)


def rates_get(h, c, key):
    return z3.Select(h.get("Dict:rate.$val", mc_rates(h, c)), key)


_gk = z3.Const("ghost!ratekey", M.RateKey)


def convinv_at(h, c, key):
    """ConvInv at one key: an entry is a well-formed rate from the base
    currency to the key's currency, and entries exist only once a kind of
    validity is fixed"""
    r = rates_get(h, c, key)
    return z3.Implies(rates_has(h, c, key), z3.And(
        z3.Not(mc_kind_none(h, c)), wf_rate_core(h, r),
        er_unit(h, r) == mc_base(h, c),
        er_term(h, r) == M.RateKey.rk_c(key)))


def wf_conv(h, c):
    return z3.And(alloc(h, c), alloc(h, mc_rates(h, c)),
                  wf_currency(h, mc_base(h, c)),
                  z3.Implies(z3.Not(mc_kind_none(h, c)),
                             z3.And(mc_kind(h, c) >= 1, mc_kind(h, c) <= 4)))


def validity_of(kind, y, m, d):
    V_ = M.Validity if hasattr(M, "Validity") else None
    from pyvc.sym import Validity
    return z3.If(kind == 1, Validity.v_none,
                 z3.If(kind == 2, Validity.v_year(y),
                       z3.If(kind == 3, Validity.v_month(y, m),
                             Validity.v_date(y, m, d))))


def _date_of(ctx, conv_t, eff: V):
    h = ctx.pre
    if isinstance(eff, VDate):
        return eff.y, eff.m, eff.d
    return (h.get("MoneyConverter.$dflt_y", conv_t),
            h.get("MoneyConverter.$dflt_m", conv_t),
            h.get("MoneyConverter.$dflt_d", conv_t))


# ---- MoneyConverter.update(self, validity, rate_specs) ---------------------------------
def mc_update_spec(ctx: Ctx):
    from pyvc.sym import Validity, validity_term
    self, validity, specs = ctx.a("self"), ctx.a("validity"), ctx.a("rate_specs")
    h = ctx.pre
    c = self.t
    req = [wf_conv(h, c), convinv_at(h, c, _gk)]
    if isinstance(validity, VStr) or (isinstance(validity, VTuple) and any(
            isinstance(i, VStr) for i in validity.items)):
        raise Unsupported("string spellings of periods are a bounded stand-in")
    if isinstance(validity, VNone):
        v_ok, v_term, kind = TRUE, Validity.v_none, 1
    elif isinstance(validity, VInt):
        v_ok = z3.And(validity.t >= 1, validity.t <= 9999)
        v_term, kind = Validity.v_year(validity.t), 2
    elif isinstance(validity, VTuple) and len(validity.items) == 2:
        y, m = validity.items[0].t, validity.items[1].t
        v_ok = z3.And(y >= 0, y <= 9999, m >= 0, m <= 99,
                      S.valid_date(y, m, z3.IntVal(1)))
        v_term, kind = Validity.v_month(y, m), 3
    elif isinstance(validity, VDateTime):
        # an instance of a subclass of date (a datetime) on a converter whose
        # kind is already fixed to unrestricted / year / month: whether it is
        # taken as a kind of its own (as the code does) or as the day it
        # spells, it is a different kind of validity.  On a daily converter
        # the property allows both rejecting it and taking it as that day, so
        # nothing is demanded there (the stand-in decides by the lookups that
        # follow); the first update of a converter is outside the contract
        req.append(z3.Not(mc_kind_none(h, c)))
        req.append(mc_kind(h, c) != 4)
        for sp in specs.items:
            req.append(wf_currency(h, sp.items[0].t))
        return req, [Case("different-kind-of-validity/subclass-instance", TRUE,
                          raises="ValueError", props=["C11", "C16"])]
    elif isinstance(validity, VDate):
        v_ok, kind = TRUE, 4
        v_term = Validity.v_date(validity.y, validity.m, validity.d)
    else:
        return req, [Case("not-a-period", TRUE, raises="ValueError",
                          props=["C11", "C16"])]
    kind_ok = z3.Or(mc_kind_none(h, c), mc_kind(h, c) == kind)
    rows = []
    for sp in specs.items:
        tcur, ta, um = sp.items
        rows.append((tcur, ta, um))
        req.append(wf_currency(h, tcur.t))
    all_ok = z3.And(*[er_accepts(mc_base(h, c), um, tcur.t, ta)
                      for tcur, ta, um in rows]) if rows else TRUE
    for tcur, ta, um in rows:
        if is_num(um) and is_num(ta):
            U, T = num_value(um), num_value(ta)
            ctx.axiom(z3.And(S.mag_fact(U), S.mag_fact(T)))

    def view(cx, o):
        ph = o.heap
        # for an arbitrary key: the last spec with that key decides, keys not
        # given keep their entry (whole-view postcondition)
        hit_any = FALSE
        conds = []
        for tcur, ta, um in rows:
            hit = _gk == rkey(v_term, tcur.t)
            hit_any = z3.Or(hit_any, hit)
        r_new = rates_get(ph, c, _gk)
        cl = [z3.Implies(z3.Not(hit_any), z3.And(
            rates_has(ph, c, _gk) == rates_has(h, c, _gk),
            z3.Implies(rates_has(h, c, _gk),
                       r_new == rates_get(h, c, _gk))))]
        # the deciding spec: last one with that key
        later = FALSE
        for tcur, ta, um in reversed(rows):
            hit = z3.And(_gk == rkey(v_term, tcur.t), z3.Not(later))
            T, U = num_value(ta), num_value(um)
            cl.append(z3.Implies(hit, z3.And(
                rates_has(ph, c, _gk),
                er_unit(ph, r_new) == mc_base(h, c),
                er_term(ph, r_new) == tcur.t,
                er_amnt(ph, r_new) == stored_amount(T, U, er_mult(ph, r_new)))))
            later = z3.Or(later, _gk == rkey(v_term, tcur.t))
        return z3.And(*cl)
    mods = ["Dict:rate.*", "MoneyConverter._type_of_validity",
            "ExchangeRate.*"]
    cases = [
        Case("invalid-period", z3.Not(v_ok), raises="ValueError",
             props=["C11", "C16"]),
        Case("different-kind-of-validity", z3.And(v_ok, z3.Not(kind_ok)),
             raises="ValueError", props=["C11", "C16"]),
        Case("invalid-rate-spec", z3.And(v_ok, kind_ok, z3.Not(all_ok)),
             raises="ValueError|OverflowError|TypeError",
             props=["C11", "C16"]),
        Case("updated", z3.And(v_ok, kind_ok, all_ok), ensures=[
            ("kind-fixed", lambda cx, o: z3.And(
                z3.Not(mc_kind_none(o.heap, c)), mc_kind(o.heap, c) == kind)),
            ("view", view),
            ("invariant", lambda cx, o: convinv_at(o.heap, c, _gk)),
            ("other-fields-unchanged", lambda cx, o: z3.And(
                mc_base(o.heap, c) == mc_base(h, c),
                mc_rates(o.heap, c) == mc_rates(h, c))),
        ], modifies=mods, props=["C11"]),
    ]
    return req, cases


def mc_update_scenarios():
    def spec_rows(n, I):
        rows = []
        for i in range(n):
            rows.append(VTuple([sym_obj(f"tc{i}", "Unit"),
                                sym_rat(f"ta{i}", T_DEC if i % 2 == 0 else T_FRAC),
                                sym_int(f"um{i}")]))
        return VList(rows)
    vals = {
        "none": lambda I: NONE,
        "year": lambda I: sym_int("year"),
        "year-month": lambda I: VTuple([sym_int("year"), sym_int("month")]),
        "date": lambda I: _sym_date(I, "vd"),
        "float": lambda I: sym_rat("v", T_FLOAT),
        "datetime": lambda I: VDateTime(*_sym_date(I, "vdt").__dict__.values()),
    }
    out = []
    for vk, vf in vals.items():
        for n in (0, 1, 2):
            if vk == "float" and n or vk == "datetime" and n == 2:
                continue
            out.append(Scenario(f"validity-{vk}/{n}-specs",
                                lambda I, vf=vf, n=n: dict(
                                    self=sym_obj("self", "MoneyConverter"),
                                    validity=vf(I),
                                    rate_specs=spec_rows(n, I))))
    return out


def _sym_date(I, name):
    y, m, d = z3.Int(name + "_y"), z3.Int(name + "_m"), z3.Int(name + "_d")
    I.path.assume(S.valid_date(y, m, d))
    return VDate(y, m, d)


from pyvc.sym import VDate, VDateTime  # noqa: E402

register(Contract(KM + "MoneyConverter.update", mc_update_spec,
                  mc_update_scenarios, props=["C11", "C16"], summarize=False,
                  notes="string spellings of periods: bounded stand-in; rate "
                        "spec lists of length 0..2 (bounded-in-length)"))


# ---- MoneyConverter.get_rate(self, unit_currency, term_currency, effective_date=None) --
def mc_get_rate_spec(ctx: Ctx):
    self = ctx.a("self")
    uc, tc, eff = ctx.a("unit_currency"), ctx.a("term_currency"), \
        ctx.a("effective_date")
    h = ctx.pre
    c = self.t
    base = mc_base(h, c)
    y, m, d = _date_of(ctx, c, eff)
    v = validity_of(mc_kind(h, c), y, m, d)
    k_u, k_t = rkey(v, uc.t), rkey(v, tc.t)
    req = [wf_conv(h, c), wf_currency(h, uc.t), wf_currency(h, tc.t),
           convinv_at(h, c, k_u), convinv_at(h, c, k_t)]
    no_kind = mc_kind_none(h, c)
    has_u = z3.And(z3.Not(no_kind), rates_has(h, c, k_u))
    has_t = z3.And(z3.Not(no_kind), rates_has(h, c, k_t))
    r_u, r_t = rates_get(h, c, k_u), rates_get(h, c, k_t)
    same = uc.t == tc.t
    from_base = z3.And(z3.Not(same), base == uc.t)
    to_base = z3.And(z3.Not(same), base != uc.t, base == tc.t)
    cross = z3.And(z3.Not(same), base != uc.t, base != tc.t)
    inv = er_mult(h, r_u) / er_amnt(h, r_u)
    quot = er_rate(h, r_t) / er_rate(h, r_u)

    def none_case(name, when):
        return Case(name, when, ensures=[("none", lambda cx, o: is_none(o))],
                    result=lambda cx: NONE, props=["C11"])
    cases = [
        # the property: 'one for a currency and itself'
        Case("same-currency", same, ensures=[
            ("rate-of-one", lambda cx, o: rate_result(
                o, lambda r, ph: er_rate(ph, r) == 1))], props=["C11"]),
        Case("from-base/stored-rate", z3.And(from_base, has_t), ensures=[
            ("the-stored-entry-for-this-period", lambda cx, o:
             isinstance(o.value, VObj) and o.value.t == r_t)],
            result=lambda cx: VObj(r_t, "ExchangeRate"), props=["C11"]),
        none_case("from-base/missing", z3.And(from_base, z3.Not(has_t))),
        new_rate_case(ctx, "to-base/inverse-of-stored-rate",
                      z3.And(to_base, has_u, inv >= MICRO), uc.t, tc.t, inv,
                      props=("C11",)),
        Case("to-base/inverse-too-small", z3.And(to_base, has_u, inv < MICRO),
             raises="ValueError", props=["C11"]),
        none_case("to-base/missing", z3.And(to_base, z3.Not(has_u))),
        new_rate_case(ctx, "cross/quotient-of-base-rates",
                      z3.And(cross, has_u, has_t, quot >= MICRO), uc.t, tc.t,
                      quot, props=("C11",)),
        Case("cross/too-small", z3.And(cross, has_u, has_t, quot < MICRO),
             raises="ValueError", props=["C11"]),
        none_case("cross/missing", z3.And(cross, z3.Not(z3.And(has_u, has_t)))),
    ]
    return req, cases


def mc_get_rate_scenarios():
    out = []
    for dk, df in (("default-date", lambda I: NONE),
                   ("given-date", lambda I: _sym_date(I, "eff"))):
        out.append(Scenario(dk, lambda I, df=df: dict(
            self=sym_obj("self", "MoneyConverter"),
            unit_currency=sym_obj("uc", "Unit"),
            term_currency=sym_obj("tc", "Unit"), effective_date=df(I))))
    return out


register(Contract(KM + "MoneyConverter.get_rate", mc_get_rate_spec,
                  mc_get_rate_scenarios, props=["C11"], summarize=False))


# ---- MoneyConverter.__call__(self, money_amnt, to_currency, effective_date=None) --------
def mc_call_spec(ctx: Ctx):
    self = ctx.a("self")
    q, tc, eff = ctx.a("money_amnt"), ctx.a("to_currency"), \
        ctx.a("effective_date")
    h = ctx.pre
    c = self.t
    uc = unit_of(h, q.t)
    base = mc_base(h, c)
    y, m, d = _date_of(ctx, c, eff)
    v = validity_of(mc_kind(h, c), y, m, d)
    k_u, k_t = rkey(v, uc), rkey(v, tc.t)
    req = [wf_conv(h, c), wf_qty(h, q.t), cls_of(h, q.t) == M.C_MONEY,
           wf_currency(h, uc),
           wf_currency(h, tc.t), convinv_at(h, c, k_u), convinv_at(h, c, k_t),
           uc != tc.t]       # same currency: known finding F4 (get_rate raises)
    no_kind = mc_kind_none(h, c)
    has_u = z3.And(z3.Not(no_kind), rates_has(h, c, k_u))
    has_t = z3.And(z3.Not(no_kind), rates_has(h, c, k_t))
    r_u, r_t = rates_get(h, c, k_u), rates_get(h, c, k_t)
    a = amount(h, q.t)
    from_base = base == uc
    to_base = z3.And(base != uc, base == tc.t)
    cross = z3.And(base != uc, base != tc.t)
    inv = er_mult(h, r_u) / er_amnt(h, r_u)
    quot = er_rate(h, r_t) / er_rate(h, r_u)

    def val_case(name, when, rate_of):
        """amount times exactly the reported rate"""
        def cl(cx, o):
            k = z3.Int("call!k10")
            return rat_result(o, lambda val, t: z3.And(exact_tag(t), rate_of(val)))
        return Case(name, when, ensures=[("amount-times-reported-rate", cl)],
                    props=["C11"])
    cases = [
        val_case("from-base", z3.And(from_base, has_t),
                 lambda val: val == er_rate(h, r_t) * a),
        Case("from-base/missing", z3.And(from_base, z3.Not(has_t)),
             raises="UnitConversionError", props=["C11"]),
        Case("to-base", z3.And(to_base, has_u, inv >= MICRO), ensures=[
            ("amount-times-inverse-rate-rounded-to-6-digits",
             lambda cx, o: rat_result(o, lambda val, t: z3.Exists(
                 [_k10], z3.And(_k10 >= 0, val == stored_amount(
                     inv, 1, S.p10(_k10)) / S.p10(_k10) * a))))],
            props=["C11"]),
        Case("to-base/inverse-too-small", z3.And(to_base, has_u, inv < MICRO),
             raises="ValueError", props=["C11"]),
        Case("to-base/missing", z3.And(to_base, z3.Not(has_u)),
             raises="UnitConversionError", props=["C11"]),
        Case("cross", z3.And(cross, has_u, has_t, quot >= MICRO), ensures=[
            ("amount-times-quotient-rate-rounded-to-6-digits",
             lambda cx, o: rat_result(o, lambda val, t: z3.Exists(
                 [_k10], z3.And(_k10 >= 0, val == stored_amount(
                     quot, 1, S.p10(_k10)) / S.p10(_k10) * a))))],
            props=["C11"]),
        Case("cross/too-small", z3.And(cross, has_u, has_t, quot < MICRO),
             raises="ValueError", props=["C11"]),
        Case("cross/missing", z3.And(cross, z3.Not(z3.And(has_u, has_t))),
             raises="UnitConversionError", props=["C11"]),
    ]
    return req, cases


_k10 = z3.Int("call!k10")


def mc_call_scenarios():
    out = []
    for dk, df in (("default-date", lambda I: NONE),
                   ("given-date", lambda I: _sym_date(I, "eff"))):
        out.append(Scenario(dk, lambda I, df=df: dict(
            self=sym_obj("self", "MoneyConverter"), money_amnt=qty_arg("money"),
            to_currency=sym_obj("tc", "Unit"), effective_date=df(I))))
    return out


register(Contract(KM + "MoneyConverter.__call__", mc_call_spec,
                  mc_call_scenarios, props=["C11"], summarize=False,
                  inline=[KM + "MoneyConverter.get_rate"]))


# ---- MoneyConverter.__init__ ----------------------------------------------------------------
def mc_init_spec(ctx: Ctx):
    self, base = ctx.a("self"), ctx.a("base_currency")
    h = ctx.pre
    return [alloc(h, self.t)], [Case("empty-converter", TRUE, ensures=[
        ("base", lambda cx, o: mc_base(o.heap, self.t) == base.t),
        ("no-kind-no-rates", lambda cx, o: z3.And(
            mc_kind_none(o.heap, self.t),
            z3.Not(rates_has(o.heap, self.t, _gk)),
            z3.Not(alloc(h, mc_rates(o.heap, self.t))))),
    ], modifies=["MoneyConverter.*", "Dict:rate.*"], props=["C11"])]


register(Contract(KM + "MoneyConverter.__init__", mc_init_spec,
                  lambda: [Scenario("default-callable", lambda I: dict(
                      base_currency=sym_obj("base", "Unit"),
                      get_dflt_effective_date=NONE),
                      constructing="MoneyConverter"),
                      Scenario("given-callable", lambda I: dict(
                          base_currency=sym_obj("base", "Unit"),
                          get_dflt_effective_date=VOpaque("callable")),
                          constructing="MoneyConverter")],
                  props=["C11"], summarize=False))
from pyvc.sym import VOpaque  # noqa: E402
