"""Contracts for the declaration machinery (C15, C16): the registries, unit
creation, directory queries.  Universally quantified invariants (DirInv) are
proved to be preserved for ghost constants (an arbitrary symbol / class /
denotation), which is the inductive step for "after any sequence of
declarations"."""
from __future__ import annotations

import z3

from pyvc import model as M
from pyvc import spec as S
from pyvc.sym import NOTIMPL as NOTIMPL_V, Unsupported, VClass
from .common import *
from .registry import *
from .term import t_num, t_vec, t_len, t_norm, unit_den, cls_den

K = "quantity:"
RG = "quantity.registry:"

_gd = z3.Const("ghost!den", M.Den)           # arbitrary denotations
_gd2 = z3.Const("ghost!den2", M.Den)
_gs = z3.Const("ghost!symbol", z3.StringSort())
_gc = z3.Const("ghost!class", Obj)


# ---- views -------------------------------------------------------------------
def sym_has(h, s, d=M.G_SYMMAP):
    return z3.Select(h.get("Dict:sym.$dom", d), s)


def sym_get(h, s, d=M.G_SYMMAP):
    return z3.Select(h.get("Dict:sym.$val", d), s)


def unit_map(h, c):
    return h.get("QtyCls._unit_map", c)


def item_den(h, item: VObj):
    if item.klass in ("Unit", "Currency"):
        n, v = unit_den(h, item.t)
    else:
        n, v = cls_den(h, item.t)
    return den(n, v)


def unit_eq_spec_value(h, a, b):
    """what Unit.__eq__(a, b) returns for two units (no assertion fails when
    units of one class agree on having a scale)"""
    same = qty_cls(h, a) == qty_cls(h, b)
    return z3.And(same, z3.If(equiv_none(h, a), a == b,
                              equiv(h, a) == equiv(h, b)))


def reg_struct_at(h, reg, d):
    """structural invariant of a registry at key d"""
    idx = reg_idx(h, reg, d)
    bl = reg_bucket(h, reg, d)
    return z3.Implies(reg_has(h, reg, d), z3.And(
        idx >= 0, idx < reg_nbuckets(h, reg), alloc(h, bl),
        bl != reg_list(h, reg), bucket_len(h, bl) >= 1,
        alloc(h, bucket_at(h, bl, 0))))


def reg_pair_at(h, reg, d1, d2):
    """distinct keys have distinct indices and distinct bucket objects"""
    i1, i2 = reg_idx(h, reg, d1), reg_idx(h, reg, d2)
    return z3.Implies(z3.And(reg_has(h, reg, d1), reg_has(h, reg, d2),
                             d1 != d2),
                      z3.And(i1 != i2, reg_bucket_obj(h, reg, i1) !=
                             reg_bucket_obj(h, reg, i2)))


def reg_inv(h, reg, d, g1, g2):
    """registry invariant instantiated at the key of interest d and at two
    arbitrary (ghost) keys"""
    return z3.And(reg_struct_at(h, reg, d), reg_struct_at(h, reg, g1),
                  reg_struct_at(h, reg, g2), reg_pair_at(h, reg, d, g1),
                  reg_pair_at(h, reg, d, g2), reg_pair_at(h, reg, g1, g2))


def reg_wf(h, reg):
    return z3.And(alloc(h, reg), alloc(h, reg_map(h, reg)),
                  alloc(h, reg_list(h, reg)), reg_nbuckets(h, reg) >= 0)


# ---- DefinedItemRegistry.register_item(self, item) ---------------------------------
def register_item_spec(ctx: Ctx):
    self, item = ctx.a("self"), ctx.a("item")
    h = ctx.pre
    reg = self.t
    d = item_den(h, item)
    first = reg_first(h, reg, d)
    is_unit = item.klass in ("Unit", "Currency")
    req = [reg_wf(h, reg), alloc(h, item.t), reg_inv(h, reg, d, _gd, _gd2)]
    if is_unit:
        req.append(z3.Implies(z3.Not(def_none(h, item.t)),
                              alloc(h, h.get("Unit._definition", item.t))))
        # units of one class agree on having a scale (else the source's own
        # asserts in Unit.__eq__ fail: DESIGN section 6, outside the properties)
        req.append(z3.Implies(
            z3.And(reg_has(h, reg, d), qty_cls(h, first) == qty_cls(h, item.t)),
            equiv_none(h, first) == equiv_none(h, item.t)))
        same_item = unit_eq_spec_value(h, first, item.t)
    else:
        req.append(z3.Implies(
            z3.Not(h.get("QtyCls._definition#none", item.t)),
            alloc(h, h.get("QtyCls._definition", item.t))))
        same_item = first == item.t
    has = reg_has(h, reg, d)
    unique = h.get("Registry._unique_items", reg)
    n_b = reg_nbuckets(h, reg)

    def ret_idx(val):
        return lambda c, o: int_result(o, lambda k: k == val)

    def others_unchanged(c, o):
        """every other key keeps its bucket (whole-view postcondition)"""
        ph = o.heap
        return z3.Implies(
            z3.And(_gd != d, reg_has(h, reg, _gd)),
            z3.And(reg_has(ph, reg, _gd),
                   reg_idx(ph, reg, _gd) == reg_idx(h, reg, _gd),
                   reg_bucket(ph, reg, _gd) == reg_bucket(h, reg, _gd),
                   bucket_same(ph, h, reg_bucket(h, reg, _gd))))

    def no_new_keys(c, o):
        return z3.Implies(z3.And(_gd != d, z3.Not(reg_has(h, reg, _gd))),
                          z3.Not(reg_has(o.heap, reg, _gd)))
    mods = ["Dict:den.*", "AList.*"]
    cases = [
        Case("new-key", z3.Not(has), ensures=[
            ("index-is-old-length", ret_idx(n_b)),
            ("bucket-is-item", lambda c, o: z3.And(
                reg_has(o.heap, reg, d), reg_idx(o.heap, reg, d) == n_b,
                bucket_len(o.heap, reg_bucket(o.heap, reg, d)) == 1,
                reg_first(o.heap, reg, d) == item.t,
                reg_nbuckets(o.heap, reg) == n_b + 1)),
            ("invariant", lambda c, o: reg_inv(o.heap, reg, d, _gd, _gd2)),
            ("others-unchanged", others_unchanged),
            ("no-other-new-key", no_new_keys)], modifies=mods),
        Case("already-registered", z3.And(has, same_item), ensures=[
            ("index", ret_idx(reg_idx(h, reg, d))),
            ("unchanged", lambda c, o: z3.And(
                reg_bucket(o.heap, reg, d) == reg_bucket(h, reg, d),
                bucket_same(o.heap, h, reg_bucket(h, reg, d)),
                reg_has(o.heap, reg, _gd) == reg_has(h, reg, _gd)))]),
        Case("duplicate-definition", z3.And(has, z3.Not(same_item), unique),
             raises="ValueError"),
        Case("appended-to-bucket", z3.And(has, z3.Not(same_item),
                                          z3.Not(unique)), ensures=[
            ("index", ret_idx(reg_idx(h, reg, d))),
            ("first-wins", lambda c, o: z3.And(
                reg_has(o.heap, reg, d),
                reg_idx(o.heap, reg, d) == reg_idx(h, reg, d),
                reg_bucket(o.heap, reg, d) == reg_bucket(h, reg, d),
                bucket_len(o.heap, reg_bucket(h, reg, d)) ==
                bucket_len(h, reg_bucket(h, reg, d)) + 1,
                bucket_at(o.heap, reg_bucket(h, reg, d),
                          bucket_len(h, reg_bucket(h, reg, d))) == item.t,
                reg_first(o.heap, reg, d) == first)),
            ("invariant", lambda c, o: reg_inv(o.heap, reg, d, _gd, _gd2)),
            ("others-unchanged", others_unchanged),
            ("no-new-key", lambda c, o: z3.Implies(
                z3.Not(reg_has(h, reg, _gd)),
                z3.Not(reg_has(o.heap, reg, _gd))))], modifies=mods),
    ]
    return req, cases


def register_item_scenarios():
    return [
        Scenario("unit-registry", lambda I: dict(
            self=sym_obj("self", "Registry"), item=sym_obj("item", "Unit"))),
        Scenario("type-registry", lambda I: dict(
            self=sym_obj("self", "TypeRegistry"),
            item=sym_obj("item", "QtyCls"))),
    ]


register(Contract(RG + "DefinedItemRegistry.register_item", register_item_spec,
                  register_item_scenarios, props=["C15", "C16", "C02", "C17"],
                  inline=[K + "Unit.__eq__"]))


# ---- ghost definitional axiom: scale / dimension of a fresh unit -------------------
def _on_set_unit_definition(interp, obj: VObj, val: V) -> None:
    """When a freshly created unit gets its definition, its (immutable) ghost
    scale and dimension are *defined* as what the definition denotes -- the
    property's 'product of the numeric factors along its chain of
    definitions'.  Sound because the object was not allocated before: no
    earlier fact mentions chain_scale / unit_dim of it."""
    h = interp.heap
    n, v = unit_den(h, obj.t)
    interp.path.assume(z3.And(scale(obj.t) == n, dim(obj.t) == v,
                              M.vunit(obj.t) != M.ZERO_VEC))
    interp.path.ledger.add("spec definition: chain_scale / unit_dim of a new "
                           "unit are what its definition denotes")


M.FIELD_HOOKS[("Unit", "_definition")] = _on_set_unit_definition


# ---- directory invariants (instances) ------------------------------------------------
def symmap_inv_at(h, s):
    """DirInv (I1) at symbol s: the symbol directory maps s to an allocated
    unit with that symbol which is listed by its own type under s"""
    u = sym_get(h, s)
    c = qty_cls(h, u)
    return z3.Implies(sym_has(h, s), z3.And(
        alloc(h, u), symbol(h, u) == s, alloc(h, c),
        z3.Not(h.get("QtyCls._unit_map#unset", c)),
        sym_has(h, s, unit_map(h, c)), sym_get(h, s, unit_map(h, c)) == u))


def unitmap_inv_at(h, c, s):
    """DirInv (I2) at class c and symbol s: a unit listed by c under s is the
    unit the symbol directory holds for s and was created for c"""
    m = unit_map(h, c)
    u = sym_get(h, s, m)
    return z3.Implies(
        z3.And(alloc(h, c), z3.Not(h.get("QtyCls._unit_map#unset", c)),
               sym_has(h, s, m)),
        z3.And(sym_has(h, s), sym_get(h, s) == u, qty_cls(h, u) == c))


def distinct_maps(h, c1, c2):
    """different classes own different unit maps, none is the symbol directory"""
    return z3.And(
        unit_map(h, c1) != M.G_SYMMAP,
        z3.Implies(z3.And(c1 != c2, alloc(h, c2),
                          z3.Not(h.get("QtyCls._unit_map#unset", c2))),
                   unit_map(h, c1) != unit_map(h, c2)))


# ---- unit creation (shared by _make_unit, _make_ref_unit, new_unit, ...) ------------
def unit_creation(ctx: Ctx, cls_t, s, dn, dv, def_obj, isref, guard=TRUE,
                  props=("C15", "C01", "C20")):
    """requires / cases of creating and registering a unit of class `cls_t`
    with symbol `s` whose definition denotes (dn, dv) (None: no definition);
    `def_obj` is the definition term when the caller passes it in."""
    h = ctx.pre
    reg = M.G_TERMMAP
    has_def = dn is not None
    um = unit_map(h, cls_t)
    req = [alloc(h, cls_t), z3.Not(h.get("QtyCls._unit_map#unset", cls_t)),
           alloc(h, um), alloc(h, M.G_SYMMAP), reg_wf(h, reg),
           distinct_maps(h, cls_t, _gc), distinct_maps(h, _gc, cls_t),
           um != reg_map(h, reg),
           z3.Not(h.get("Registry._unique_items", reg)),
           symmap_inv_at(h, s), symmap_inv_at(h, _gs),
           unitmap_inv_at(h, cls_t, _gs), unitmap_inv_at(h, _gc, _gs),
           unitmap_inv_at(h, cls_t, s), unitmap_inv_at(h, _gc, s)]
    if has_def:
        d = den(dn, dv)
        new_equiv_none = FALSE
        new_equiv = z3.If(isref, z3.RealVal(1), dn)
        req.append(z3.Implies(guard, dn > 0))
    else:
        d = None            # den of the new unit itself: (1, vunit(u))
        new_equiv_none = z3.Not(isref)
        new_equiv = z3.RealVal(1)

    def the_den(u):
        return d if d is not None else den(z3.RealVal(1), M.unit_vec(u))
    if has_def:
        req.append(reg_inv(h, reg, d, _gd, _gd2))
        first = reg_first(h, reg, d)
        req.append(z3.Implies(
            z3.And(guard, reg_has(h, reg, d), qty_cls(h, first) == cls_t),
            equiv_none(h, first) == new_equiv_none))
    else:
        req.append(reg_inv(h, reg, _gd, _gd, _gd2))
        # no registered key mentions an object that does not exist yet
        ctx.axiom(z3.ForAll([_fo], z3.Implies(
            z3.Not(alloc(h, _fo)),
            z3.Not(reg_has(h, reg, den(z3.RealVal(1), M.unit_vec(_fo)))))),
            "A3: directory keys only mention allocated objects")
    empty = z3.Length(s) == 0
    taken = sym_has(h, s)

    def unit_res(o: Outcome, pred):
        if not (isinstance(o.value, VObj) and o.value.klass == "Unit"):
            return FALSE
        return pred(o.value.t, o.heap)

    def definition(c, o):
        def p(u, ph):
            if not has_def:
                return def_none(ph, u)
            dd = ph.get("Unit._definition", u)
            base = z3.And(z3.Not(def_none(ph, u)), t_num(ph, dd) == dn,
                          t_vec(ph, dd) == dv)
            if def_obj is not None:
                base = z3.And(base, dd == def_obj)
            return base
        return unit_res(o, p)
    ens = [
        ("fresh", lambda c, o: unit_res(o, lambda u, ph: fresh_in(c, ph, u))),
        ("own-type", lambda c, o: unit_res(o, lambda u, ph: z3.And(
            qty_cls(ph, u) == cls_t,
            is_currency(ph, u) == h.get("QtyCls.$unit_cls_is_currency", cls_t)))),
        ("symbol", lambda c, o: unit_res(o, lambda u, ph: symbol(ph, u) == s)),
        ("definition", definition),
        ("scale-is-what-the-definition-denotes",
         lambda c, o: unit_res(o, lambda u, ph: z3.And(
             equiv_none(ph, u) == new_equiv_none,
             z3.Implies(z3.Not(new_equiv_none), z3.And(
                 equiv(ph, u) == new_equiv, exact_tag(equiv_tag(ph, u)))),
             scale(u) == unit_den(ph, u)[0], dim(u) == unit_den(ph, u)[1]))),
        ("symbol-directory", lambda c, o: unit_res(o, lambda u, ph: z3.And(
            sym_has(ph, s), sym_get(ph, s) == u,
            z3.Implies(_gs != s, z3.And(
                sym_has(ph, _gs) == sym_has(h, _gs),
                sym_get(ph, _gs) == sym_get(h, _gs)))))),
        ("listed-by-its-own-type-only",
         lambda c, o: unit_res(o, lambda u, ph: z3.And(
             sym_has(ph, s, unit_map(ph, cls_t)),
             sym_get(ph, s, unit_map(ph, cls_t)) == u,
             unit_map(ph, cls_t) == um,
             # no other class' map and no other symbol changed
             z3.Implies(z3.Or(_gc != cls_t, _gs != s), z3.Implies(
                 z3.And(alloc(h, _gc),
                        z3.Not(h.get("QtyCls._unit_map#unset", _gc))),
                 z3.And(unit_map(ph, _gc) == unit_map(h, _gc),
                        sym_has(ph, _gs, unit_map(ph, _gc)) ==
                        sym_has(h, _gs, unit_map(h, _gc)),
                        sym_get(ph, _gs, unit_map(ph, _gc)) ==
                        sym_get(h, _gs, unit_map(h, _gc)))))))),
        ("term-directory", lambda c, o: unit_res(o, lambda u, ph: z3.And(
            reg_has(ph, reg, the_den(u)),
            z3.Implies(z3.And(_gd != the_den(u), reg_has(h, reg, _gd)), z3.And(
                reg_has(ph, reg, _gd),
                reg_bucket(ph, reg, _gd) == reg_bucket(h, reg, _gd),
                bucket_same(ph, h, reg_bucket(h, reg, _gd)))),
            z3.Implies(z3.And(_gd != the_den(u), z3.Not(reg_has(h, reg, _gd))),
                       z3.Not(reg_has(ph, reg, _gd))),
            # first registered wins
            z3.If(reg_has(h, reg, the_den(u)),
                  reg_first(ph, reg, the_den(u)) == reg_first(h, reg, the_den(u)),
                  z3.And(bucket_len(ph, reg_bucket(ph, reg, the_den(u))) == 1,
                         reg_first(ph, reg, the_den(u)) == u))))),
        ("inv/symbol-directory", lambda c, o: unit_res(o, lambda u, ph: z3.And(
            symmap_inv_at(ph, s), symmap_inv_at(ph, _gs)))),
        ("inv/own-type-map", lambda c, o: unit_res(o, lambda u, ph: z3.And(
            unitmap_inv_at(ph, cls_t, _gs), unitmap_inv_at(ph, cls_t, s)))),
        ("inv/other-type-maps", lambda c, o: unit_res(
            o, lambda u, ph: z3.Implies(alloc(h, _gc), z3.And(
                unitmap_inv_at(ph, _gc, _gs), unitmap_inv_at(ph, _gc, s))))),
        ("inv/term-directory/struct-new", lambda c, o: unit_res(
            o, lambda u, ph: reg_struct_at(ph, reg, the_den(u)))),
        ("inv/term-directory/struct-any", lambda c, o: unit_res(
            o, lambda u, ph: reg_struct_at(ph, reg, _gd))),
        ("inv/term-directory/distinct-new-any", lambda c, o: unit_res(
            o, lambda u, ph: reg_pair_at(ph, reg, the_den(u), _gd))),
        ("inv/term-directory/distinct-any-any", lambda c, o: unit_res(
            o, lambda u, ph: reg_pair_at(ph, reg, _gd, _gd2))),
    ]
    mods = ["Dict:sym.*", "Dict:den.*", "AList.*"]
    return req, ens, mods, empty, taken


def make_unit_spec(ctx: Ctx):
    cls, symbol_v, name = ctx.a("cls"), ctx.a("symbol"), ctx.a("name")
    define_as = ctx.a("define_as")
    h = ctx.pre
    has_def = isinstance(define_as, VObj) and define_as.klass == "Term"
    if not has_def and not isinstance(define_as, VNone):
        return [], [Case("unknown-definition-type", TRUE,
                         raises="AssertionError")]
    isref = TRUE if getattr(ctx, "is_ref", False) else FALSE
    if has_def:
        dn, dv = t_num(h, define_as.t), t_vec(h, define_as.t)
        req0 = [alloc(h, define_as.t)]
        def_obj = define_as.t
    else:
        dn = dv = def_obj = None
        req0 = []
    req, ens, mods, empty, taken = unit_creation(ctx, cls.t, symbol_v.t, dn, dv,
                                                 def_obj, isref)
    cases = [
        Case("empty-symbol", empty, raises="AssertionError",
             props=["C15", "C16"]),
        Case("symbol-taken", z3.And(z3.Not(empty), taken), raises="ValueError",
             props=["C15", "C16"]),
        Case("created", z3.And(z3.Not(empty), z3.Not(taken)), ensures=ens,
             modifies=mods, props=["C15", "C01", "C20"]),
    ]
    return req0 + req, cases


_fo = z3.Const("fresh!o", Obj)


def make_unit_scenarios():
    out = []
    for dk, df in (("term", lambda I: sym_obj("define_as", "Term")),
                   ("none", lambda I: NONE),
                   ("other", lambda I: sym_int("define_as"))):
        for nk, nf in (("name", lambda I: sym_str("name")),
                       ("noname", lambda I: NONE)):
            if dk == "other" and nk == "noname":
                continue
            out.append(Scenario(f"define_as-{dk}/{nk}", lambda I, df=df, nf=nf: dict(
                cls=sym_obj("cls", "QtyCls"), symbol=sym_str("symbol"),
                name=nf(I), define_as=df(I))))
    return out


register(Contract(K + "QuantityMeta._make_unit", make_unit_spec,
                  make_unit_scenarios, props=["C15", "C16", "C01", "C20"],
                  public=False, summarize=False,
                  inline=[K + "Unit.__eq__",
                          RG + "DefinedItemRegistry.register_item"]))


def make_ref_unit_spec(ctx: Ctx):
    ctx.is_ref = True
    return make_unit_spec(ctx)


register(Contract(K + "QuantityMeta._make_ref_unit", make_ref_unit_spec,
                  make_unit_scenarios, props=["C15", "C16", "C01", "C20"],
                  public=False, summarize=False,
                  inline=[K + "Unit.__eq__", K + "QuantityMeta._make_unit",
                          RG + "DefinedItemRegistry.register_item"]))


# ---- QuantityMeta.new_unit(cls, symbol, name=None, define_as=None) ---------------------
def new_unit_spec(ctx: Ctx):
    cls, symbol_v, name = ctx.a("cls"), ctx.a("symbol"), ctx.a("name")
    define_as = ctx.a("define_as")
    h = ctx.pre
    # (units are declared on concrete types; Money has its own new_unit)
    req = [wf_cls(h, cls.t), cls.t != M.C_MONEY, cls.t != M.C_QUANTITY]
    if not isinstance(symbol_v, VStr):
        return req, [Case("symbol-not-a-string", TRUE, raises="TypeError",
                          props=["C15", "C16"])]
    s = symbol_v.t
    empty = z3.Length(s) == 0
    pre_cases = [Case("empty-symbol", empty, raises="ValueError",
                      props=["C15", "C16"])]
    guard = z3.Not(empty)
    lin = linear(h, cls.t)
    if isinstance(define_as, VObj) and define_as.klass == "Qty":
        q = define_as.t
        # isinstance(define_as, cls): the class itself or the base class
        own = z3.Or(cls_of(h, q) == cls.t, cls.t == M.C_QUANTITY)
        req.append(z3.Implies(own, wf_qty(h, q)))
        pre_cases.append(Case("equivalent-of-another-type",
                              z3.And(guard, z3.Not(own)), raises="TypeError",
                              props=["C15", "C16"]))
        guard = z3.And(guard, own)
        p = unit_of(h, q)
        dn, dv = amount(h, q) * scale(p), dim(p)
        # a unit must have a positive scale; the equivalent is a quantity of a
        # type with reference unit (else no scale exists)
        req.append(z3.Implies(guard, z3.And(amount(h, q) > 0, lin)))
    elif isinstance(define_as, VObj) and define_as.klass == "Term":
        t = define_as.t
        n, v = t_num(h, t), t_vec(h, t)
        found, has1, zero, has2, d1, d2 = resolve(h, n, v)
        req += [alloc(h, t), dirinv_at(h, d1), dirinv_at(h, d2)]
        ru = z3.If(has1, reg_first(h, M.G_TERMMAP, d1),
                   reg_first(h, M.G_TERMMAP, d2))
        ok = z3.And(found, z3.Not(z3.And(z3.Not(has1), zero)),
                    qty_cls(h, ru) == cls.t)
        pre_cases.append(Case("term-of-another-dimension",
                              z3.And(guard, z3.Not(ok)), raises="ValueError",
                              props=["C15", "C16"]))
        guard = z3.And(guard, ok)
        dn, dv = n, v
        req.append(z3.Implies(guard, z3.And(n > 0, lin)))
    elif isinstance(define_as, VNone):
        dn = dv = None
        # a unit without definition on a type with reference unit has no
        # scale (the source's own asserts fail on it): outside the properties
        req.append(z3.Not(lin))
    else:
        return req, pre_cases + [Case("definition-of-wrong-type", guard,
                                      raises="TypeError",
                                      props=["C15", "C16"])]
    creq, ens, mods, _empty, taken = unit_creation(ctx, cls.t, s, dn, dv, None,
                                                   FALSE, guard)

    def wf_new(c, o):
        if not (isinstance(o.value, VObj) and o.value.klass == "Unit"):
            return FALSE
        return wf_unit(o.heap, o.value.t)
    ens = ens + [("well-formed", wf_new)]
    cases = pre_cases + [
        Case("symbol-taken", z3.And(guard, taken), raises="ValueError",
             props=["C15", "C16"]),
        Case("created", z3.And(guard, z3.Not(taken)), ensures=ens,
             modifies=mods, props=["C15", "C01", "C20"]),
    ]
    return req + creq, cases


def new_unit_scenarios():
    out = []
    for dk, df in (("quantity", lambda I: sym_obj("define_as", "Qty")),
                   ("term", lambda I: sym_obj("define_as", "Term")),
                   ("none", lambda I: NONE),
                   ("number", lambda I: sym_int("define_as")),
                   ("unit", lambda I: sym_obj("define_as", "Unit"))):
        out.append(Scenario(f"define_as-{dk}", lambda I, df=df: dict(
            cls=sym_obj("cls", "QtyCls"), symbol=sym_str("symbol"),
            name=sym_str("name"), define_as=df(I))))
    out.append(Scenario("symbol-int", lambda I: dict(
        cls=sym_obj("cls", "QtyCls"), symbol=sym_int("symbol"),
        name=NONE, define_as=NONE)))
    out.append(Scenario("symbol-none", lambda I: dict(
        cls=sym_obj("cls", "QtyCls"), symbol=NONE, name=NONE, define_as=NONE)))
    return out


register(Contract(K + "QuantityMeta.new_unit", new_unit_spec,
                  new_unit_scenarios, props=["C15", "C16", "C01", "C20"],
                  summarize=False,
                  inline=[K + "Unit.__eq__", K + "QuantityMeta._make_unit",
                          RG + "DefinedItemRegistry.register_item"]))


# ---- directory queries --------------------------------------------------------------
def unit_new_spec(ctx: Ctx):
    symbol_v = ctx.a("symbol")
    h = ctx.pre
    if not isinstance(symbol_v, VStr):
        raise Unsupported("non-string symbol (unhashable keys are outside PyQ)")
    s = symbol_v.t
    req = [alloc(h, M.G_SYMMAP), symmap_inv_at(h, s)]
    return req, [
        Case("registered", sym_has(h, s), ensures=[
            ("identical-object", lambda c, o: isinstance(o.value, VObj) and
             z3.And(o.value.t == sym_get(h, s), symbol(h, o.value.t) == s))],
            result=lambda c: VObj(sym_get(h, s), "Unit")),
        Case("unknown-symbol", z3.Not(sym_has(h, s)), raises="ValueError"),
    ]


register(Contract(K + "Unit.__new__", unit_new_spec,
                  lambda: [Scenario("symbol", lambda I: dict(
                      cls=VClass("Unit"), symbol=sym_str("symbol")))],
                  props=["C15", "C16"]))


def contains_spec(ctx: Ctx):
    cls, symbol_v = ctx.a("cls"), ctx.a("symbol")
    h = ctx.pre
    s = symbol_v.t
    req = [wf_cls(h, cls.t), unitmap_inv_at(h, cls.t, s)]
    m = unit_map(h, cls.t)
    return req, [Case("lookup", TRUE, ensures=[
        ("listed-iff-own-unit", lambda c, o: bool_result(
            o, lambda b: z3.And(
                b == sym_has(h, s, m),
                z3.Implies(b, z3.And(sym_has(h, s),
                                     qty_cls(h, sym_get(h, s)) == cls.t)))))],
        result=lambda c: VBool(sym_has(h, s, m)))]


register(Contract(K + "QuantityMeta.__contains__", contains_spec,
                  lambda: [Scenario("symbol", lambda I: dict(
                      cls=sym_obj("cls", "QtyCls"), symbol=sym_str("symbol")))],
                  props=["C15", "C16"]))


def get_unit_by_symbol_spec(ctx: Ctx):
    cls, symbol_v = ctx.a("cls"), ctx.a("symbol")
    h = ctx.pre
    s = symbol_v.t
    req = [wf_cls(h, cls.t), unitmap_inv_at(h, cls.t, s)]
    m = unit_map(h, cls.t)
    return req, [
        Case("own-unit", sym_has(h, s, m), ensures=[
            ("identical-object-of-this-type", lambda c, o:
             isinstance(o.value, VObj) and z3.And(
                 o.value.t == sym_get(h, s, m), o.value.t == sym_get(h, s),
                 qty_cls(h, o.value.t) == cls.t))],
            result=lambda c: VObj(sym_get(h, s, m), "Unit")),
        Case("not-a-unit-of-this-type", z3.Not(sym_has(h, s, m)),
             raises="ValueError"),
    ]


register(Contract(K + "QuantityMeta.get_unit_by_symbol", get_unit_by_symbol_spec,
                  lambda: [Scenario("symbol", lambda I: dict(
                      cls=sym_obj("cls", "QtyCls"), symbol=sym_str("symbol")))],
                  props=["C15", "C16", "C08"]))
