"""Contracts for the operators and conversion methods of quantity.Quantity."""
from __future__ import annotations

import z3

from pyvc import model as M
from pyvc import spec as S
from pyvc.interp import CONV_KIND, CONV_VAL
from pyvc.sym import NOTIMPL as NOTIMPL_V, VFunc, Unsupported
from .common import *
from .units import CMP

K = "quantity:"
MAX_CONV = 3        # converter lists are unrolled up to this length (bounded)


def qty_arg(name="self"):
    return sym_obj(name, "Qty")


def converters(h, c):
    """sequence of registered converters of class c (found through the MRO)"""
    return h.get("List.$seq", h.get("QtyCls._converters", c))


def conv_chain(h, q, to_unit):
    """outcome of consulting the converters most-recent-first:
    list of (guard, kind, value) for position i = 0.. from the end"""
    c = cls_of(h, q)
    seq = converters(h, c)
    n = z3.Length(seq)
    a, u = amount(h, q), unit_of(h, q)
    out = []
    prev_none = []
    for i in range(MAX_CONV):
        ci = seq[n - 1 - i]
        k = CONV_KIND(ci, a, u, to_unit)
        v = CONV_VAL(ci, a, u, to_unit)
        out.append((z3.And(n > i, *prev_none), k, v))
        prev_none = prev_none + [k == 0]
    all_none = z3.And(*[z3.Implies(n > i, CONV_KIND(seq[n - 1 - i], a, u,
                                                    to_unit) == 0)
                        for i in range(MAX_CONV)])
    return n, out, all_none


def res_rat(c, name="r"):
    return VRat(c.fresh(name, z3.RealSort()), fresh_exact_tag(c))


def res_bool(c):
    return VBool(c.fresh("b", z3.BoolSort()))


# ---------------------------------------------------------------------------
# Quantity.equiv_amount(self, unit)
def equiv_amount_cases(h, q, unit, prefix=""):
    """(requires, cases-as-tuples) shared by equiv_amount and its clients:
    yields (name, when, kind, payload) with kind in value|none|raises"""
    req = [wf_qty(h, q)]
    out = []
    if isinstance(unit, VObj) and unit.klass == "Unit":
        u1, u2 = unit_of(h, q), unit.t
        c = cls_of(h, q)
        same = qty_cls(h, u2) == c
        req.append(z3.Implies(same, wf_unit(h, u2)))
        lin = linear(h, c)
        out.append(("linear", z3.And(same, lin), "value",
                    amount(h, q) * scale(u1) / scale(u2)))
        out.append(("same-unit", z3.And(same, z3.Not(lin), u1 == u2), "value",
                    amount(h, q)))
        n, chain, all_none = conv_chain(h, q, u2)
        base = z3.And(same, z3.Not(lin), u1 != u2)
        req.append(z3.Implies(base, n <= MAX_CONV))
        for i, (g, k, v) in enumerate(chain):
            out.append((f"converter-{i}-value", z3.And(base, g, k == 1),
                        "value", v))
            out.append((f"converter-{i}-cannot-convert",
                        z3.And(base, g, k == 2), "raises",
                        "UnitConversionError"))
            out.append((f"converter-{i}-raises",
                        z3.And(base, g, k != 0, k != 1, k != 2), "raises",
                        "ConverterRaised"))
        out.append(("no-converter-answers", z3.And(base, all_none), "none",
                    None))
        out.append(("other-class", z3.Not(same), "raises",
                    "IncompatibleUnitsError"))
    else:
        out.append(("not-a-unit", TRUE, "raises", "TypeError"))
    return req, out


def equiv_amount_spec(ctx: Ctx):
    self, unit = ctx.a("self"), ctx.a("unit")
    h = ctx.pre
    req, tuples = equiv_amount_cases(h, self.t, unit)
    cases = []
    for name, when, kind, payload in tuples:
        if kind == "value":
            cases.append(Case(
                name, when,
                ensures=[("value", lambda c, o, payload=payload: rat_result(
                    o, lambda v, t: z3.And(v == payload, exact_tag(t))))],
                result=res_rat))
        elif kind == "none":
            cases.append(Case(name, when,
                              ensures=[("none", lambda c, o: is_none(o))],
                              result=lambda c: NONE))
        else:
            cases.append(Case(name, when, raises=payload))
    return req, cases


def _self_other(kinds, other_name="other", extra=None):
    def mk():
        out = []
        for k in kinds:
            f = ALL_KINDS[k]
            out.append(Scenario(f"{other_name}-{k}", lambda I, f=f: dict(
                {"self": qty_arg(), other_name: f(other_name, I)},
                **(extra(I) if extra else {}))))
        return out
    return mk


register(Contract(K + "Quantity.equiv_amount", equiv_amount_spec,
                  _self_other(["Unit", "int", "Qty", "None"], "unit"),
                  props=["C01", "C08", "C12", "C14"],
                  notes=f"converter lists of length <= {MAX_CONV} "
                        f"(bounded-in-length)"))


# ---------------------------------------------------------------------------
# Quantity.convert(self, to_unit)     (C01)
def convert_spec(ctx: Ctx):
    self, to_unit = ctx.a("self"), ctx.a("to_unit")
    h = ctx.pre
    req, tuples = equiv_amount_cases(h, self.t, to_unit)
    cases = []
    for name, when, kind, payload in tuples:
        if kind == "value":
            u2 = to_unit.t
            ctx.axiom(q_round_facts(h, payload, u2))

            def build(c, payload=payload, u2=u2):
                return new_qty(c, qty_cls(c.pre, u2),
                               q_round(c.pre, payload, u2),
                               fresh_exact_tag(c), u2)
            cases.append(Case(
                name, when,
                ensures=[
                    ("class", lambda c, o: qty_result(
                        o, lambda q, ph: cls_of(ph, q) == cls_of(c.pre, self.t))),
                    ("unit", lambda c, o, u2=u2: qty_result(
                        o, lambda q, ph: unit_of(ph, q) == u2)),
                    ("amount", lambda c, o, payload=payload, u2=u2: qty_result(
                        o, lambda q, ph: amount(ph, q) ==
                        q_round(c.pre, payload, u2))),
                    ("exact-representation", lambda c, o: qty_result(
                        o, lambda q, ph: exact_tag(amount_tag(ph, q)))),
                    ("fresh", lambda c, o: qty_result(
                        o, lambda q, ph: fresh_in(c, ph, q))),
                ], result=build))
        elif kind == "none":
            cases.append(Case(name, when, raises="UnitConversionError"))
        else:
            cases.append(Case(name, when, raises=payload))
    return req, cases


register(Contract(K + "Quantity.convert", convert_spec,
                  _self_other(["Unit", "int", "None"], "to_unit"),
                  props=["C01", "C05", "C08", "C14", "C20"]))


# ---------------------------------------------------------------------------
# Quantity.__eq__ / _compare / rich comparisons     (C03, C04, C08, C14)
def _same_class(h, a, b):
    return cls_of(h, b) == cls_of(h, a)


def qty_eq_spec(ctx: Ctx):
    self, other = ctx.a("self"), ctx.a("other")
    h = ctx.pre
    req = [wf_qty(h, self.t)]
    false_case = lambda name, when: Case(
        name, when, ensures=[("false", lambda c, o: bool_result(
            o, lambda b: z3.Not(b)))], result=res_bool)
    if isinstance(other, VObj) and other.klass == "Qty":
        same = _same_class(h, self.t, other.t)
        req.append(z3.Implies(same, wf_qty(h, other.t)))
        # other.equiv_amount(self.unit)
        ereq, tuples = equiv_amount_cases(h, other.t, VObj(unit_of(h, self.t),
                                                           "Unit"))
        req += [z3.Implies(same, r) for r in ereq]
        ident = unit_of(h, self.t) == unit_of(h, other.t)
        cases = [Case("identical-unit", z3.And(same, ident),
                      ensures=[("by-amount", lambda c, o: bool_result(
                          o, lambda b: b == (amount(h, self.t) ==
                                             amount(h, other.t))))],
                      result=res_bool, props=["C04"])]
        for name, when, kind, payload in tuples:
            w = z3.And(same, z3.Not(ident), when)
            if kind == "value":
                cases.append(Case(
                    name, w, ensures=[("by-value", lambda c, o, p=payload:
                                       bool_result(o, lambda b: b == (
                                           amount(h, self.t) == p)))],
                    result=res_bool, props=["C04", "C14"]))
            elif kind == "none":
                cases.append(false_case(name, w))
            else:
                cases.append(Case(name, w, raises=payload))
        cases.append(false_case("other-class", z3.Not(same)))
    else:
        cases = [false_case("not-a-quantity", TRUE)]
    return req, cases


register(Contract(K + "Quantity.__eq__", qty_eq_spec,
                  _self_other(["Qty", "int", "Decimal", "Unit", "str", "None"]),
                  props=["C03", "C04", "C08", "C14"]))


def _qty_cmp_cases(ctx, self, other, rel):
    h = ctx.pre
    req = [wf_qty(h, self.t)]
    if isinstance(other, VObj) and other.klass == "Qty":
        same = _same_class(h, self.t, other.t)
        req.append(z3.Implies(same, wf_qty(h, other.t)))
        ereq, tuples = equiv_amount_cases(h, other.t, VObj(unit_of(h, self.t),
                                                           "Unit"))
        req += [z3.Implies(same, r) for r in ereq]
        ident = unit_of(h, self.t) == unit_of(h, other.t)
        cases = [Case("identical-unit", z3.And(same, ident),
                      ensures=[("by-amount", lambda c, o: bool_result(
                          o, lambda b: b == rel(amount(h, self.t),
                                                amount(h, other.t))))],
                      result=res_bool, props=["C04"])]
        for name, when, kind, payload in tuples:
            w = z3.And(same, z3.Not(ident), when)
            if kind == "value":
                cases.append(Case(
                    name, w, ensures=[("by-value", lambda c, o, p=payload:
                                       bool_result(o, lambda b: b == rel(
                                           amount(h, self.t), p)))],
                    result=res_bool, props=["C04", "C14"]))
            elif kind == "none":
                cases.append(Case(name, w, raises="UnitConversionError",
                                  props=["C08", "C14"]))
            else:
                cases.append(Case(name, w, raises=payload))
        cases.append(Case("other-class", z3.Not(same),
                          raises="IncompatibleUnitsError", props=["C03"]))
    else:
        cases = [Case("not-a-quantity", TRUE,
                      ensures=[("notimplemented", lambda c, o: is_notimpl(o))],
                      result=lambda c: NOTIMPL_V, props=["C03"])]
    return req, cases


def qty_compare_spec(ctx: Ctx):
    return _qty_cmp_cases(ctx, ctx.a("self"), ctx.a("other"),
                          CMP[ctx.a("op").name])


def qty_compare_scenarios():
    out = []
    for opn in CMP:
        for k in ["Qty", "int", "Decimal", "Unit", "None"]:
            f = ALL_KINDS[k]
            out.append(Scenario(f"{opn.split('.')[1]}/other-{k}",
                                lambda I, f=f, opn=opn: dict(
                                    self=qty_arg(), other=f("other", I),
                                    op=VFunc(opn))))
    return out


register(Contract(K + "Quantity._compare", qty_compare_spec,
                  qty_compare_scenarios, props=["C03", "C04", "C08", "C14"],
                  public=False))

for _name, _opn in (("__lt__", "operator.lt"), ("__le__", "operator.le"),
                    ("__gt__", "operator.gt"), ("__ge__", "operator.ge")):
    def _spec(ctx, _opn=_opn):
        return _qty_cmp_cases(ctx, ctx.a("self"), ctx.a("other"), CMP[_opn])
    register(Contract(K + "Quantity." + _name, _spec,
                      _self_other(["Qty", "int", "Fraction", "Unit"]),
                      props=["C03", "C04", "C08", "C14"]))


# ---------------------------------------------------------------------------
# Quantity.__add__ / __radd__ / __sub__ / __rsub__ / __neg__ / __abs__ / __pos__
def _addsub_spec(sign):
    def spec(ctx: Ctx):
        self, other = ctx.a("self"), ctx.a("other")
        h = ctx.pre
        req = [wf_qty(h, self.t)]
        if isinstance(other, VObj) and other.klass == "Qty":
            same = _same_class(h, self.t, other.t)
            req.append(z3.Implies(same, wf_qty(h, other.t)))
            u1 = unit_of(h, self.t)
            ereq, tuples = equiv_amount_cases(h, other.t, VObj(u1, "Unit"))
            req += [z3.Implies(same, r) for r in ereq]
            cases = []
            for name, when, kind, payload in tuples:
                w = z3.And(same, when)
                if kind == "value":
                    exact = amount(h, self.t) + sign * payload
                    ctx.axiom(q_round_facts(h, exact, u1))
                    has1, qu1 = unit_quantum(h, u1)
                    a2 = amount(h, other.t)
                    same_u = unit_of(h, other.t) == u1
                    exact2 = amount(h, self.t) + sign * a2
                    if name in ("same-unit", "linear"):
                        ctx.axiom(z3.And(
                            grid_sum_facts(amount(h, self.t), a2, sign, qu1),
                            grid_sum_facts(amount(h, self.t), a2, sign, qu1,
                                           exact=exact)),
                                  "A3: ground instances of lemmas grid/sum-of-"
                                  "multiples-not-rounded, field/cancel-common-"
                                  "factor and of the definition of the ghost "
                                  "witness grid_k")
                        # the other operand in the same unit: its equivalent
                        # amount is its amount ((a * s) / s == a, s > 0)
                        ctx.axiom(z3.Implies(same_u, z3.And(
                            payload == a2, exact == exact2,
                            exact / qu1 == exact2 / qu1)),
                            "A3: ground instance of lemma field/cancel-"
                            "common-factor ((a * s) / s == a)")

                    def exact_on_grid(c, o, exact2=exact2, a2=a2,
                                      same_u=same_u, has1=has1, qu1=qu1):
                        a1 = amount(c.pre, self.t)
                        return qty_result(o, lambda q, ph: z3.Implies(
                            z3.And(same_u, has1, qu1 > 0, grid_w(a1, qu1),
                                   grid_w(a2, qu1)),
                            z3.And(amount(ph, q) == exact2,
                                   grid_k(exact2, qu1) == grid_k(a1, qu1) +
                                   sign * grid_k(a2, qu1),
                                   grid_w(exact2, qu1))))

                    def build(c, exact=exact):
                        return new_qty(c, cls_of(c.pre, self.t),
                                       q_round(c.pre, exact, u1),
                                       fresh_exact_tag(c), u1)
                    cases.append(Case(
                        name, w,
                        ensures=[
                            ("class", lambda c, o: qty_result(
                                o, lambda q, ph: cls_of(ph, q) ==
                                cls_of(c.pre, self.t))),
                            ("unit", lambda c, o: qty_result(
                                o, lambda q, ph: unit_of(ph, q) == u1)),
                            ("amount-rounded-once",
                             lambda c, o, exact=exact: qty_result(
                                 o, lambda q, ph: amount(ph, q) ==
                                 q_round(c.pre, exact, u1))),
                            ("exact-representation", lambda c, o: qty_result(
                                o, lambda q, ph: exact_tag(amount_tag(ph, q)))),
                            ("fresh", lambda c, o: qty_result(
                                o, lambda q, ph: fresh_in(c, ph, q))),
                        ] + ([("multiples-of-the-quantum-add-exactly",
                               exact_on_grid)]
                             if name in ("same-unit", "linear") else []),
                        result=build, props=["C03", "C05"]))
                elif kind == "none":
                    cases.append(Case(name, w, raises="UnitConversionError",
                                      props=["C08", "C14"]))
                else:
                    cases.append(Case(name, w, raises=payload))
            cases.append(Case("other-class", z3.Not(same),
                              raises="IncompatibleUnitsError", props=["C03"]))
        else:
            cases = [Case("not-a-quantity", TRUE,
                          ensures=[("notimplemented",
                                    lambda c, o: is_notimpl(o))],
                          result=lambda c: NOTIMPL_V, props=["C03"])]
        return req, cases
    return spec


_ADD_KINDS = ["Qty", "int", "Decimal", "Fraction", "float", "Unit", "str",
              "None"]
register(Contract(K + "Quantity.__add__", _addsub_spec(1),
                  _self_other(_ADD_KINDS), props=["C03", "C05", "C08"]))
register(Contract(K + "Quantity.__radd__", _addsub_spec(1),
                  _self_other(_ADD_KINDS), props=["C03", "C05", "C08"]))
register(Contract(K + "Quantity.__sub__", _addsub_spec(-1),
                  _self_other(_ADD_KINDS), props=["C03", "C05", "C08"]))


def rsub_spec(ctx: Ctx):
    other = ctx.a("other")
    h = ctx.pre
    if isinstance(other, VObj) and other.klass == "Qty":
        return [], [Case("quantity", TRUE, raises="IncompatibleUnitsError")]
    return [], [Case("not-a-quantity", TRUE,
                     ensures=[("notimplemented", lambda c, o: is_notimpl(o))],
                     result=lambda c: NOTIMPL_V)]


register(Contract(K + "Quantity.__rsub__", rsub_spec,
                  _self_other(["Qty", "int", "Decimal", "float", "None"]),
                  props=["C03"]))


def _unary_spec(fn):
    def spec(ctx: Ctx):
        self = ctx.a("self")
        h = ctx.pre
        u = unit_of(h, self.t)
        exact = fn(amount(h, self.t))
        req = [wf_qty(h, self.t)]
        ctx.axiom(q_round_facts(h, exact, u))

        def build(c):
            return new_qty(c, cls_of(c.pre, self.t), q_round(c.pre, exact, u),
                           fresh_exact_tag(c), u)
        return req, [Case("value", TRUE, ensures=[
            ("class", lambda c, o: qty_result(
                o, lambda q, ph: cls_of(ph, q) == cls_of(c.pre, self.t))),
            ("unit", lambda c, o: qty_result(
                o, lambda q, ph: unit_of(ph, q) == u)),
            # (the operand is on the grid, so this rounding is the identity:
            #  lemma C05/grid/closed-under-negation)
            ("amount-rounded-once", lambda c, o: qty_result(
                o, lambda q, ph: amount(ph, q) == q_round(c.pre, exact, u))),
            ("exact-representation", lambda c, o: qty_result(
                o, lambda q, ph: exact_tag(amount_tag(ph, q)))),
        ], result=build)]
    return spec


def _only_self():
    return [Scenario("self", lambda I: dict(self=qty_arg()))]


register(Contract(K + "Quantity.__neg__", _unary_spec(lambda a: -a),
                  _only_self, props=["C03", "C05"]))
register(Contract(K + "Quantity.__abs__", _unary_spec(S.absr), _only_self,
                  props=["C03", "C05"]))


def pos_spec(ctx: Ctx):
    self = ctx.a("self")
    return [wf_qty(ctx.pre, self.t)], [Case("self", TRUE, ensures=[
        ("identity", lambda c, o: qty_result(o, lambda q, ph: q == self.t))],
        result=lambda c: self)]


register(Contract(K + "Quantity.__pos__", pos_spec, _only_self,
                  props=["C03"]))


# ---------------------------------------------------------------------------
# Quantity.quantize(self, quant, rounding=None)      (C13)
def quantize_spec(ctx: Ctx):
    self, quant, rounding = ctx.a("self"), ctx.a("quant"), ctx.a("rounding")
    h = ctx.pre
    req = [wf_qty(h, self.t)]
    c = cls_of(h, self.t)
    if not (isinstance(quant, VObj) and quant.klass == "Qty"):
        return req, [Case("quant-not-a-quantity", TRUE, raises="TypeError")]
    same = cls_of(h, quant.t) == c
    req.append(z3.Implies(same, wf_qty(h, quant.t)))
    su, qu = unit_of(h, self.t), unit_of(h, quant.t)
    a = amount(h, self.t)
    nq = amount(h, quant.t) * scale(qu) / scale(su)
    lin = linear(h, c)
    if isinstance(rounding, VNone):
        mode = S.DFLT_MODE
    else:
        mode = rounding.t
        req.append(z3.And(mode >= 0, mode < 8))      # a ROUNDING member
    # the quantum must not be zero (decimalfp raises for a zero quantum)
    req.append(z3.Implies(z3.And(same, lin), nq != 0))
    exact = z3.ToReal(S.rnd(a / nq, mode)) * nq
    ctx.axiom(S.rnd_fact(a / nq, mode))
    ctx.axiom(q_round_facts(h, exact, su))

    def build(cx):
        return new_qty(cx, c, q_round(cx.pre, exact, su), fresh_exact_tag(cx),
                       su)
    cases = [
        Case("other-type", z3.Not(same), raises="TypeError"),
        Case("no-ref-unit", z3.And(same, z3.Not(lin)), raises="TypeError"),
        Case("zero", z3.And(same, lin, a == 0),
             ensures=[("self", lambda cx, o: qty_result(
                 o, lambda q, ph: q == self.t))],
             result=lambda cx: self),
        Case("value", z3.And(same, lin, a != 0), ensures=[
            ("class", lambda cx, o: qty_result(
                o, lambda q, ph: cls_of(ph, q) == c)),
            ("unit", lambda cx, o: qty_result(
                o, lambda q, ph: unit_of(ph, q) == su)),
            ("multiple-selected-by-mode", lambda cx, o: qty_result(
                o, lambda q, ph: amount(ph, q) == q_round(cx.pre, exact, su))),
            ("exact-representation", lambda cx, o: qty_result(
                o, lambda q, ph: exact_tag(amount_tag(ph, q)))),
        ], result=build),
    ]
    return req, cases


def quantize_scenarios():
    out = []
    for mname, mk in (("default-mode", lambda: NONE),
                      ("explicit-mode",
                       lambda: sym_int("rounding", enum="ROUNDING"))):
        for k in ("Qty", "int", "Unit", "None"):
            f = ALL_KINDS[k]
            out.append(Scenario(f"{mname}/quant-{k}", lambda I, f=f, mk=mk: dict(
                self=qty_arg(), quant=f("quant", I), rounding=mk())))
    return out


register(Contract(K + "Quantity.quantize", quantize_spec, quantize_scenarios,
                  props=["C13"]))


# Quantity.__round__(self, n_digits=0)      (C13)
def round_spec(ctx: Ctx):
    self, n = ctx.a("self"), ctx.a("n_digits")
    h = ctx.pre
    u = unit_of(h, self.t)
    a = amount(h, self.t)
    mode = S.round_builtin_mode(amount_tag(h, self.t))
    sc = S.p10(n.t)
    r = z3.ToReal(S.rnd(a * sc, mode)) / sc
    ctx.axiom(S.rnd_fact(a * sc, mode))
    ctx.axiom(q_round_facts(h, r, u))

    def build(cx):
        return new_qty(cx, cls_of(cx.pre, self.t), q_round(cx.pre, r, u),
                       fresh_exact_tag(cx), u)
    return [wf_qty(h, self.t)], [Case("value", TRUE, ensures=[
        ("class", lambda cx, o: qty_result(
            o, lambda q, ph: cls_of(ph, q) == cls_of(cx.pre, self.t))),
        ("unit", lambda cx, o: qty_result(
            o, lambda q, ph: unit_of(ph, q) == u)),
        ("amount-rounded-to-n-digits", lambda cx, o: qty_result(
            o, lambda q, ph: amount(ph, q) == q_round(cx.pre, r, u))),
    ], result=build)]


register(Contract(K + "Quantity.__round__", round_spec,
                  lambda: [Scenario("n", lambda I: dict(
                      self=qty_arg(), n_digits=sym_int("n_digits")))],
                  props=["C13"]))


# ---------------------------------------------------------------------------
# Quantity.__str__ / __format__ (C18): amount, a blank, the unit symbol
def _text_form(h, q):
    return z3.Concat(S.str_of_num(amount(h, q), amount_tag(h, q)),
                     z3.StringVal(" "), symbol(h, unit_of(h, q)))


def qty_str_spec(ctx: Ctx):
    self = ctx.a("self")
    h = ctx.pre
    txt = _text_form(h, self.t)
    return [wf_qty(h, self.t)], [Case("text", TRUE, ensures=[
        ("amount-blank-symbol", lambda cx, o: isinstance(o.value, VStr) and
         o.value.t == txt)], result=lambda cx: VStr(txt), props=["C18"])]


register(Contract(K + "Quantity.__str__", qty_str_spec, _only_self,
                  props=["C18"]))


def qty_format_spec(ctx: Ctx):
    self, spec = ctx.a("self"), ctx.a("fmt_spec")
    h = ctx.pre
    txt = _text_form(h, self.t)
    empty = z3.Length(spec.t) == 0
    return [wf_qty(h, self.t), empty], [Case("no-spec", empty, ensures=[
        ("equals-str", lambda cx, o: isinstance(o.value, VStr) and
         o.value.t == txt)], result=lambda cx: VStr(txt), props=["C18"])]


register(Contract(K + "Quantity.__format__", qty_format_spec,
                  lambda: [Scenario("empty-spec", lambda I: dict(
                      self=qty_arg(), fmt_spec=VStr(z3.StringVal(""))))],
                  props=["C18"]))
