"""Shared vocabulary for the contracts: spec-level (non-branching) readers of
the heap, argument builders for scenarios, result helpers."""
from __future__ import annotations

from typing import Any, Dict, List, Optional

import z3

from pyvc import model as M
from pyvc import spec as S
from pyvc.contract import Case, Contract, Ctx, Outcome, Scenario, register
from pyvc.sym import (NONE, Heap, Obj, T_DEC, T_FLOAT, T_FRAC, T_INT,
                      T_STDDEC, V, VBool, VInt, VNone, VNotImpl, VObj, VRat,
                      VStr, VTuple, VList, VExc, vint)

FALSE = z3.BoolVal(False)
TRUE = z3.BoolVal(True)


# ---- result helpers (a kind mismatch makes the clause false => refuted) ----
def ret_int(o: Outcome):
    return o.value.t if isinstance(o.value, VInt) else None


def is_kind(o: Outcome, kind) -> bool:
    return isinstance(o.value, kind)


def int_result(o: Outcome, pred):
    if not isinstance(o.value, VInt):
        return FALSE
    return pred(o.value.t)


def rat_result(o: Outcome, pred):
    """numeric result: pred(value Real, tag Int)"""
    v = o.value
    if isinstance(v, VInt):
        return pred(z3.ToReal(v.t), z3.IntVal(T_INT))
    if isinstance(v, VRat):
        return pred(v.t, v.tag)
    return FALSE


def bool_result(o: Outcome, pred):
    if not isinstance(o.value, VBool):
        return FALSE
    return pred(o.value.t)


def exact_tag(tag):
    return z3.Or(tag == T_DEC, tag == T_FRAC)


# ---- argument builders ----------------------------------------------------
def sym_int(name: str, enum=None) -> VInt:
    return VInt(z3.Int(name), enum=enum)


def sym_rat(name: str, kind: Optional[int] = None, interp=None) -> VRat:
    """symbolic rational; kind None => Decimal-or-Fraction (symbolic tag)"""
    if kind is None:
        tag = z3.Int(name + "#tag")
        if interp is not None:
            interp.path.assume(z3.Or(tag == T_DEC, tag == T_FRAC))
        return VRat(z3.Real(name), tag)
    return VRat(z3.Real(name), z3.IntVal(kind))


def sym_obj(name: str, klass: str) -> VObj:
    return VObj(z3.Const(name, Obj), klass)


def sym_str(name: str) -> VStr:
    return VStr(z3.String(name))
