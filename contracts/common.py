"""Shared vocabulary for the contracts: spec-level (non-branching) readers of
the heap, argument builders for scenarios, result helpers."""
from __future__ import annotations

from typing import Any, Dict, List, Optional

import z3

from pyvc import model as M
from pyvc import spec as S
from pyvc.contract import Case, Contract, Ctx, Outcome, Scenario, register
from pyvc.sym import (NONE, Heap, Obj, T_DEC, T_FLOAT, T_FRAC, T_INT,
                      T_STDDEC, V, VBool, VInt, VNone, VNotImpl, VObj, VRat,
                      VStr, VTuple, VList, VExc, vint)

FALSE = z3.BoolVal(False)
TRUE = z3.BoolVal(True)


# ---- result helpers (a kind mismatch makes the clause false => refuted) ----
def ret_int(o: Outcome):
    return o.value.t if isinstance(o.value, VInt) else None


def is_kind(o: Outcome, kind) -> bool:
    return isinstance(o.value, kind)


def int_result(o: Outcome, pred):
    if not isinstance(o.value, VInt):
        return FALSE
    return pred(o.value.t)


def rat_result(o: Outcome, pred):
    """numeric result: pred(value Real, tag Int)"""
    v = o.value
    if isinstance(v, VInt):
        return pred(z3.ToReal(v.t), z3.IntVal(T_INT))
    if isinstance(v, VRat):
        return pred(v.t, v.tag)
    return FALSE


def bool_result(o: Outcome, pred):
    if not isinstance(o.value, VBool):
        return FALSE
    return pred(o.value.t)


def exact_tag(tag):
    return z3.Or(tag == T_DEC, tag == T_FRAC)


# ---- argument builders ----------------------------------------------------
def sym_int(name: str, enum=None) -> VInt:
    return VInt(z3.Int(name), enum=enum)


def sym_rat(name: str, kind: Optional[int] = None, interp=None) -> VRat:
    """symbolic rational; kind None => Decimal-or-Fraction (symbolic tag)"""
    if kind is None:
        tag = z3.Int(name + "#tag")
        if interp is not None:
            interp.path.assume(z3.Or(tag == T_DEC, tag == T_FRAC))
        return VRat(z3.Real(name), tag)
    return VRat(z3.Real(name), z3.IntVal(kind))


def sym_obj(name: str, klass: str) -> VObj:
    """an argument object of a scenario (exists in the pre-state)"""
    from pyvc.sym import register_old
    o = z3.Const(name, Obj)
    register_old(o)
    return VObj(o, klass)


def sym_str(name: str) -> VStr:
    return VStr(z3.String(name))


# ===========================================================================
# spec-level readers (never branch) ----------------------------------------
def hsel(h: Heap, name: str, o):
    return h.get(name, o)


def alloc(h, o):
    return h.get("$alloc", o)


# units
def qty_cls(h, u):
    return h.get("Unit._qty_cls", u)


def equiv_none(h, u):
    return h.get("Unit._equiv#none", u)


def equiv(h, u):
    return h.get("Unit._equiv", u)


def equiv_tag(h, u):
    return h.get("Unit._equiv#tag", u)


def is_currency(h, u):
    return h.get("Unit.$is_currency", u)


def smallest_fraction(h, u):
    return h.get("Unit._smallest_fraction", u)


def symbol(h, u):
    return h.get("Unit._symbol", u)


def def_none(h, u):
    return h.get("Unit._definition#none", u)


# classes
def ref_none(h, c):
    return h.get("QtyCls._ref_unit#none", c)


def ref_unit(h, c):
    return h.get("QtyCls._ref_unit", c)


def linear(h, c):
    """the quantity class has a reference unit"""
    return z3.Not(ref_none(h, c))


def cls_quantum_none(h, c):
    return h.get("QtyCls._quantum#none", c)


def cls_quantum(h, c):
    return h.get("QtyCls._quantum", c)


# quantities
def amount(h, q):
    return h.get("Qty._amount", q)


def amount_tag(h, q):
    return h.get("Qty._amount#tag", q)


def unit_of(h, q):
    return h.get("Qty._unit", q)


def cls_of(h, q):
    return h.get("Qty.__class__", q)


# the property's own notion of a unit's scale: the product of the numeric
# factors along its chain of definitions down to the reference unit.  It is an
# uninterpreted function here; the declaration contracts (C15) establish
# `_equiv == chain_scale` for every unit they create, `wf_unit` carries it.
chain_scale = z3.Function("chain_scale", Obj, z3.RealSort())


def scale(u):
    return chain_scale(u)


# dimension of a unit: the exponent vector over base elements its chain of
# definitions denotes (ghost, fixed when the unit is created, like the scale)
unit_dim = z3.Function("unit_dim", Obj, M.VecSort)


def dim(u):
    return unit_dim(u)


grid_k = z3.Function("grid_k", z3.RealSort(), z3.RealSort(), z3.IntSort())


def unit_quantum(h, u):
    """(has_quantum, quantum) of a unit: the currency's smallest fraction, or
    the type's quantum divided by the unit's scale."""
    c = qty_cls(h, u)
    has = z3.If(is_currency(h, u), TRUE, z3.Not(cls_quantum_none(h, c)))
    val = z3.If(is_currency(h, u), smallest_fraction(h, u),
                cls_quantum(h, c) / scale(u))
    return has, val


def q_round(h, x, u):
    """x rounded once to the unit's quantum with the default rounding mode
    (x itself if the unit has no quantum)."""
    has, qu = unit_quantum(h, u)
    return z3.If(has, z3.ToReal(S.rnd(x / qu, S.DFLT_MODE)) * qu, x)


def q_round_facts(h, x, u):
    """defining fact of rnd for the argument, and the definitional fact of the
    ghost witness grid_k (grid_k(a, q) is the integer k with k * q == a when
    there is one) for the rounded value"""
    _has, qu = unit_quantum(h, u)
    k = S.rnd(x / qu, S.DFLT_MODE)
    return z3.And(S.rnd_fact(x / qu, S.DFLT_MODE),
                  z3.Implies(qu != 0, grid_k(z3.ToReal(k) * qu, qu) == k))


def grid_w(a, qu):
    """a is the multiple grid_k(a, qu) of qu (ghost witness)"""
    return z3.ToReal(grid_k(a, qu)) * qu == a


def grid_kept_facts(x, qu):
    """ground instance of lemma grid/multiple-not-rounded for the actual
    argument of the rounding function: a multiple of the quantum is rounded
    to itself"""
    g = grid_k(x, qu)
    k = S.rnd(x / qu, S.DFLT_MODE)
    return z3.Implies(z3.And(qu > 0, grid_w(x, qu)),
                      z3.And(k == g, z3.ToReal(k) * qu == x,
                             x / qu == z3.ToReal(g)))


def grid_sum_facts(a1, a2, sign, qu, exact=None):
    """ground instances for the sum / difference of two multiples of qu:
    the definitional fact of the witness grid_k at (g1 +- g2) * qu, the
    distributivity instance, and the cancellation instance of lemma
    field/cancel-common-factor (A3)"""
    g1, g2 = grid_k(a1, qu), grid_k(a2, qu)
    G = g1 + sign * g2
    gr = z3.ToReal(G)
    if exact is None:
        exact = a1 + sign * a2
    k = S.rnd(exact / qu, S.DFLT_MODE)
    lemma = z3.Implies(
        z3.And(qu > 0, grid_w(a1, qu), grid_w(a2, qu), exact == a1 + sign * a2),
        # conclusions of lemma grid/sum-of-multiples-not-rounded for the
        # actual argument of the rounding function
        z3.And(k == G, z3.ToReal(k) * qu == exact, grid_k(exact, qu) == G,
               gr * qu == exact))
    return z3.And(lemma, z3.Implies(qu != 0, z3.And(
        S.rnd_int_fact(G, S.DFLT_MODE),
        grid_k(gr * qu, qu) == G,
        gr * qu == z3.ToReal(g1) * qu + sign * (z3.ToReal(g2) * qu),
        z3.Implies(z3.And(grid_w(a1, qu), grid_w(a2, qu)),
                   z3.And(exact / qu == gr, exact == gr * qu,
                          grid_k(exact, qu) == G)))))


def on_grid(h, a, u):
    """GridInv as an *assumption*: the amount is an integer multiple of the
    unit's quantum (the multiplier is the ghost witness grid_k).  As a goal the
    grid property always follows from a value clause `amount == rnd(..) * qu`."""
    has, qu = unit_quantum(h, u)
    return z3.Implies(has, z3.And(qu > 0,
                                  z3.ToReal(grid_k(a, qu)) * qu == a))


def wf_cls(h, c):
    """representation invariant of a quantity class"""
    r = ref_unit(h, c)
    return z3.And(
        alloc(h, c),
        # set by QuantityMeta.__new__ / __init__ for every class
        z3.Not(h.get("QtyCls._converters#unset", c)),
        z3.Not(h.get("QtyCls._unit_map#unset", c)),
        z3.Not(h.get("QtyCls._reg_id#unset", c)),
        alloc(h, h.get("QtyCls._converters", c)),
        alloc(h, h.get("QtyCls._unit_map", c)),
        h.get("QtyCls.$unit_cls_is_currency", c) == (c == M.C_MONEY),
        z3.Implies(linear(h, c), z3.And(
            alloc(h, r), qty_cls(h, r) == c, z3.Not(equiv_none(h, r)),
            equiv(h, r) == 1, scale(r) == 1,
            z3.Not(is_currency(h, r)), wf_unit_core(h, r))),
        # a quantum needs a reference unit (asserted by QuantityMeta.__new__)
        z3.Implies(z3.Not(cls_quantum_none(h, c)),
                   z3.And(linear(h, c), cls_quantum(h, c) > 0,
                          exact_tag(h.get("QtyCls._quantum#tag", c)))),
        z3.Implies(c == M.C_QUANTITY, ref_none(h, c)),
        # Money: no reference unit, no class level quantum
        z3.Implies(c == M.C_MONEY, z3.And(ref_none(h, c),
                                           cls_quantum_none(h, c))),
    )


def wf_unit_core(h, u):
    """unit-level part of wf_unit (everything but the class invariant)"""
    c = qty_cls(h, u)
    return z3.And(
        alloc(h, u), c != M.C_QUANTITY,
        is_currency(h, u) == (c == M.C_MONEY),
        z3.Implies(z3.Not(def_none(h, u)),
                   alloc(h, h.get("Unit._definition", u))),
        z3.Implies(linear(h, c), z3.And(
            z3.Not(equiv_none(h, u)), equiv(h, u) > 0,
            exact_tag(equiv_tag(h, u)), equiv(h, u) == scale(u))),
        z3.Implies(z3.Not(linear(h, c)), equiv_none(h, u)),
        wf_unit_den(h, u),
        z3.Implies(is_currency(h, u), z3.And(
            smallest_fraction(h, u) > 0,
            z3.Not(h.get("Unit._smallest_fraction#unset", u)),
            h.get("Unit._smallest_fraction#tag", u) == T_DEC)),
    )


def wf_unit(h, u):
    """representation invariant of a unit (DESIGN 4.1): a unit of a type with
    reference unit has a positive scale equal to its chain scale; units of a
    type without reference unit ("table units": temperature scales,
    currencies) have none.  Compound units of such types (EUR/kg) are outside
    (DESIGN section 6, 'observed but outside')."""
    return z3.And(wf_unit_core(h, u), wf_cls(h, qty_cls(h, u)))


def wf_qty(h, q):
    u = unit_of(h, q)
    return z3.And(alloc(h, q), wf_unit(h, u), cls_of(h, q) == qty_cls(h, u),
                  exact_tag(amount_tag(h, q)),
                  on_grid(h, amount(h, q), u))          # GridInv


def refval(h, q):
    return amount(h, q) * scale(unit_of(h, q))


# result helpers for quantities ------------------------------------------------
def qty_result(o: Outcome, pred):
    """pred(q term, post heap) for a quantity result"""
    if not (isinstance(o.value, VObj) and o.value.klass == "Qty"):
        return FALSE
    return pred(o.value.t, o.heap)


def is_notimpl(o: Outcome):
    return TRUE if isinstance(o.value, VNotImpl) else FALSE


def is_none(o: Outcome):
    return TRUE if isinstance(o.value, VNone) else FALSE


def fresh_in(c: Ctx, o_heap: Heap, obj):
    """obj was allocated by the call"""
    return z3.And(z3.Not(alloc(c.pre, obj)), alloc(o_heap, obj))


def new_qty(c: Ctx, cls_t, amnt_t, tag_t, unit_t) -> VObj:
    """result builder: a fresh quantity instance"""
    q = c.alloc("Qty", "q")
    h = c.heap
    h.set("Qty._amount", q.t, amnt_t)
    h.set("Qty._amount#tag", q.t, tag_t)
    h.set("Qty._unit", q.t, unit_t)
    h.set("Qty.__class__", q.t, cls_t)
    return q


def fresh_exact_tag(c: Ctx):
    t = c.fresh("tag", z3.IntSort())
    c.path.assume(exact_tag(t))
    return t


NUM_KINDS = {
    "int": lambda n, I: sym_int(n),
    "Decimal": lambda n, I: sym_rat(n, T_DEC),
    "Fraction": lambda n, I: sym_rat(n, T_FRAC),
    "float": lambda n, I: sym_rat(n, T_FLOAT),
    "StdLibDecimal": lambda n, I: sym_rat(n, T_STDDEC),
}
OTHER_KINDS = {
    "None": lambda n, I: NONE,
    "str": lambda n, I: sym_str(n),
    "Unit": lambda n, I: sym_obj(n, "Unit"),
    "Qty": lambda n, I: sym_obj(n, "Qty"),
    "SIPrefix": lambda n, I: sym_obj(n, "SIPrefix"),
    "Term": lambda n, I: sym_obj(n, "Term"),
    "ExchangeRate": lambda n, I: sym_obj(n, "ExchangeRate"),
    "tuple": lambda n, I: VTuple([]),
}
ALL_KINDS = dict(NUM_KINDS, **OTHER_KINDS)


def num_value(v: V):
    from pyvc.builtins_model import rv
    return rv(v)


def is_num(v: V) -> bool:
    return isinstance(v, (VInt, VRat))


def wf_unit_den(h, u):
    """the unit's denotation as a term element is (chain_scale, dimension):
    the numeric factor and the exponent vector of its chain of definitions;
    all units of a type with reference unit have the type's dimension"""
    from .term import unit_den
    c = qty_cls(h, u)
    n, v = unit_den(h, u)
    r = ref_unit(h, c)
    return z3.And(
        n == scale(u), v == dim(u), scale(u) > 0, dim(u) != M.ZERO_VEC,
        z3.Implies(z3.Not(def_none(h, u)),
                   alloc(h, h.get("Unit._definition", u))),
        z3.Implies(linear(h, c), z3.And(dim(u) == dim(r), scale(r) == 1)))
