"""Directory views and invariants (DirInv, CacheInv; DESIGN 4.3) and the
contracts of the lookup helpers of quantity/__init__.py and registry.py."""
from __future__ import annotations

import z3

from pyvc import model as M
from pyvc import spec as S
from pyvc.sym import Unsupported
from .common import *
from .term import (t_len, t_norm, t_num, t_vec, unit_den, vec_add, vec_scale,
                   cls_den)

K = "quantity:"
RG = "quantity.registry:"


def den(num, vec):
    return M.Den.mk_Den(num, vec)


# ---- abstract view of a DefinedItemRegistry ---------------------------------
def reg_map(h, reg):
    return h.get("Registry._item_def_map", reg)


def reg_list(h, reg):
    return h.get("Registry._item_list", reg)


def reg_has(h, reg, d):
    return z3.Select(h.get("Dict:den.$dom", reg_map(h, reg)), d)


def reg_idx(h, reg, d):
    return z3.Select(h.get("Dict:den.$val", reg_map(h, reg)), d)


def reg_nbuckets(h, reg):
    return h.get("AList.$len", reg_list(h, reg))


def reg_bucket_obj(h, reg, idx):
    return z3.Select(h.get("AList.$arr", reg_list(h, reg)), idx)


def reg_bucket(h, reg, d):
    """the bucket list object registered under denotation d"""
    return reg_bucket_obj(h, reg, reg_idx(h, reg, d))


def bucket_len(h, b):
    return h.get("AList.$len", b)


def bucket_at(h, b, i):
    return z3.Select(h.get("AList.$arr", b), i)


def bucket_same(h1, h2, b):
    """bucket object b has the same content in both heaps"""
    return z3.And(bucket_len(h1, b) == bucket_len(h2, b),
                  h1.get("AList.$arr", b) == h2.get("AList.$arr", b))


def reg_first(h, reg, d):
    return bucket_at(h, reg_bucket(h, reg, d), 0)


def unit_ok(h, u, d):
    """u is a well-formed unit denoting d"""
    n, v = unit_den(h, u)
    return z3.And(alloc(h, u), wf_unit(h, u), n == M.Den.den_num(d),
                  v == M.Den.den_vec(d))


def dirinv_at(h, d, reg=M.G_TERMMAP):
    """DirInv of the term -> unit directory, instantiated at denotation d:
    a registered key maps to a valid index of a non-empty bucket whose first
    element is a well-formed unit denoting d."""
    idx = reg_idx(h, reg, d)
    bl = reg_bucket(h, reg, d)
    return z3.And(
        alloc(h, reg), alloc(h, reg_map(h, reg)), alloc(h, reg_list(h, reg)),
        reg_nbuckets(h, reg) >= 0,
        z3.Not(h.get("Registry._unique_items", reg)),
        z3.Implies(reg_has(h, reg, d), z3.And(
            idx >= 0, idx < reg_nbuckets(h, reg), alloc(h, bl),
            bucket_len(h, bl) >= 1,
            unit_ok(h, reg_first(h, reg, d), d))))


def resolve(h, n, v):
    """the property's lookup rule: (found, amount, has_unit, unit) for the
    denotation (n, v): exact entry, else a plain number if v is zero, else
    the entry without numeric factor"""
    d1, d2 = den(n, v), den(z3.RealVal(1), v)
    has1 = reg_has(h, M.G_TERMMAP, d1)
    has2 = reg_has(h, M.G_TERMMAP, d2)
    zero = v == M.ZERO_VEC
    found = z3.Or(has1, zero, z3.And(n != 1, has2))
    return found, has1, zero, has2, d1, d2


def value_ok(h, n, v, amnt, has_unit, unit):
    """(amnt, unit) denotes (n, v): amnt * den(unit) == (n, v), or the plain
    number n if there is no unit"""
    un, uv = unit_den(h, unit)
    return z3.If(has_unit,
                 z3.And(amnt * un == n, uv == v, alloc(h, unit),
                        wf_unit(h, unit)),
                 z3.And(v == M.ZERO_VEC, amnt == n))


# ---- _amnt_and_unit_from_term(term) -----------------------------------------
def amnt_unit_spec(ctx: Ctx):
    term = ctx.a("term")
    h = ctx.pre
    n, v = t_num(h, term.t), t_vec(h, term.t)
    found, has1, zero, has2, d1, d2 = resolve(h, n, v)
    req = [alloc(h, term.t), dirinv_at(h, d1), dirinv_at(h, d2)]

    def mk(amnt_t, unit_t):
        def build(c):
            return VTuple([VRat(amnt_t, fresh_exact_tag(c)),
                           VObj(unit_t, "Unit") if unit_t is not None else NONE])
        return build
    u1 = reg_first(h, M.G_TERMMAP, d1)
    u2 = reg_first(h, M.G_TERMMAP, d2)

    def tup(o, pred):
        val = o.value
        if not (isinstance(val, VTuple) and len(val.items) == 2 and
                is_num(val.items[0])):
            return FALSE
        return pred(num_value(val.items[0]), val.items[1])
    cases = [
        Case("exact-entry", has1, ensures=[
            ("first-of-bucket", lambda c, o: tup(o, lambda a, u: z3.And(
                a == 1, isinstance(u, VObj) and u.t == u1)))],
            result=mk(z3.RealVal(1), u1)),
        Case("plain-number", z3.And(z3.Not(has1), zero), ensures=[
            ("number", lambda c, o: tup(o, lambda a, u: z3.And(
                a == n, isinstance(u, VNone))))],
            result=mk(n, None)),
        Case("entry-without-factor",
             z3.And(z3.Not(has1), z3.Not(zero), n != 1, has2), ensures=[
                 ("factor-and-first-of-bucket", lambda c, o: tup(
                     o, lambda a, u: z3.And(a == n, isinstance(u, VObj) and
                                            u.t == u2)))],
             result=mk(n, u2)),
        Case("not-registered", z3.Not(found), raises="KeyError"),
    ]
    return req, cases


def amnt_unit_scenarios():
    return [Scenario("term", lambda I: dict(term=sym_obj("term", "Term")))]


register(Contract(K + "_amnt_and_unit_from_term", amnt_unit_spec,
                  amnt_unit_scenarios, props=["C02", "C10", "C17"],
                  public=False))


# ---- op cache ---------------------------------------------------------------
OP_MUL, OP_DIV = M.OPS["operator.mul"], M.OPS["operator.truediv"]


def cache_key(op, a, b):
    return M.OpKey.mk_OpKey(z3.IntVal(op), a, b)


def cache_has(h, key):
    return z3.Select(h.get("Dict:op.$dom", M.G_OPCACHE), key)


def cache_entry(h, key):
    g = lambda suf: z3.Select(h.get("Dict:op.$val" + suf, M.G_OPCACHE), key)
    return g("#0"), g("#0#tag"), z3.Not(g("#1#none")), g("#1")


def cache_entry_none(h, key):
    """the cached value is None (never the case under CacheInv)"""
    return z3.Select(h.get("Dict:op.$val#none", M.G_OPCACHE), key)


def op_den(h, op, a, b):
    n1, v1 = unit_den(h, a)
    n2, v2 = unit_den(h, b)
    mul = (n1 * n2, vec_add(v1, v2))
    div = (n1 / n2, vec_add(v1, vec_scale(v2, -1)))
    sop = z3.simplify(op)
    if z3.is_int_value(sop):
        return mul if sop.as_long() == OP_MUL else div
    return (z3.If(op == OP_MUL, mul[0], div[0]),
            z3.If(op == OP_MUL, mul[1], div[1]))


def cacheinv_at(h, key):
    """CacheInv instantiated at one key: a cached entry denotes the product /
    quotient of the two units"""
    op, a, b = M.OpKey.ok_op(key), M.OpKey.ok_a(key), M.OpKey.ok_b(key)
    n, v = op_den(h, op, a, b)
    amnt, tag, has_u, u = cache_entry(h, key)
    return z3.Implies(
        z3.And(cache_has(h, key), z3.Or(op == OP_MUL, op == OP_DIV)),
        z3.And(z3.Not(cache_entry_none(h, key)),
               alloc(h, a), alloc(h, b), wf_unit(h, a), wf_unit(h, b),
               exact_tag(tag), value_ok(h, n, v, amnt, has_u, u)))
