"""Contracts for the algebra of units: Unit.__mul__ / __rmul__ / __truediv__ /
__rtruediv__ / __pow__ and _qty_from_term (C02, C17)."""
from __future__ import annotations

import z3

from pyvc import model as M
from pyvc import spec as S
from pyvc.sym import NOTIMPL as NOTIMPL_V, Unsupported
from .common import *
from .registry import *
from .term import unit_den, vec_add, vec_scale, t_num, t_vec

K = "quantity:"
_gk = z3.Const("ghost!cachekey", M.OpKey)      # universally quantified ghost


def _tuple_result(o: Outcome, pred):
    v = o.value
    if not (isinstance(v, VTuple) and len(v.items) == 2 and is_num(v.items[0])):
        return FALSE
    u = v.items[1]
    if isinstance(u, VNone):
        return pred(num_value(v.items[0]), FALSE, M.C_QUANTITY,
                    v.items[0].tag if isinstance(v.items[0], VRat)
                    else z3.IntVal(T_INT))
    if isinstance(u, VObj):
        return pred(num_value(v.items[0]), TRUE, u.t,
                    v.items[0].tag if isinstance(v.items[0], VRat)
                    else z3.IntVal(T_INT))
    return FALSE


def _cache_only(c: Ctx, o: Outcome):
    """nothing but the op cache object changed in the Dict:op arrays"""
    x = z3.Const("frame!dict", Obj)
    cl = []
    for name in list(o.heap.arrays):
        if name.startswith("Dict:op."):
            cl.append(z3.Implies(
                z3.And(x != M.G_OPCACHE, alloc(c.pre, x)),
                z3.Select(o.heap.arr(name), x) == z3.Select(c.pre.arr(name), x)))
    return z3.And(*cl) if cl else TRUE


def unit_pair_cases(ctx: Ctx, self, other, op: int, req):
    """cases for unit (*|/) unit -> (amount, unit | None)"""
    h = ctx.pre
    key = cache_key(op, self.t, other.t)
    n, v = op_den(h, z3.IntVal(op), self.t, other.t)
    n = z3.simplify(n)
    found, has1, zero, has2, d1, d2 = resolve(h, n, v)
    same = qty_cls(h, self.t) == qty_cls(h, other.t)
    lin = linear(h, qty_cls(h, self.t))
    req += [wf_unit(h, self.t), wf_unit(h, other.t),
            alloc(h, M.G_OPCACHE),
            dirinv_at(h, d1), dirinv_at(h, d2),
            cacheinv_at(h, key), cacheinv_at(h, _gk)]
    hit = cache_has(h, key)
    e_amnt, e_tag, e_has, e_u = cache_entry(h, key)
    from .term import vec_facts
    ctx.axiom(z3.And(vec_facts(unit_den(h, self.t)[1]),
                     vec_facts(unit_den(h, other.t)[1])),
              "A3: ground instances of abelian group facts for dimension "
              "vectors (x + (-1)x = 0)")
    if op == OP_DIV:
        # units of one type: no lookup, the quotient is a plain number
        direct = z3.And(z3.Not(hit), same)
        ok_direct = z3.Or(lin, self.t == other.t)
        lookup = z3.And(z3.Not(hit), z3.Not(same))
    else:
        direct = FALSE
        ok_direct = FALSE
        lookup = z3.Not(hit)

    def build_fresh(c):
        amnt = c.fresh("amnt", z3.RealSort())
        has = c.fresh("hasunit", z3.BoolSort())
        u = c.fresh("resunit", Obj)
        tag = fresh_exact_tag(c)
        res = VTuple([VRat(amnt, tag), VObj(u, "Unit")])
        # the result is either (number, None) or (number, unit)
        if c.path.branch(has):
            c.path.assume(alloc(c.heap, u))
        else:
            res = VTuple([VRat(amnt, tag), NONE])
        c.I.bm.dict_store(VObj(M.G_OPCACHE, "Dict:op"), key, res)
        return res

    def build_hit(c):
        if c.path.branch(e_has):
            return VTuple([VRat(e_amnt, e_tag), VObj(e_u, "Unit")])
        return VTuple([VRat(e_amnt, e_tag), NONE])

    value = ("value", lambda c, o: _tuple_result(
        o, lambda a, has, u, tag: z3.And(exact_tag(tag),
                                         value_ok(o.heap, n, v, a, has, u))))
    cached = ("entry-cached", lambda c, o: _tuple_result(
        o, lambda a, has, u, tag: z3.And(
            cache_has(o.heap, key),
            cache_entry(o.heap, key)[0] == a,
            cache_entry(o.heap, key)[2] == has,
            z3.Implies(has, cache_entry(o.heap, key)[3] == u))))
    inv = ("cache-invariant-preserved",
           lambda c, o: cacheinv_at(o.heap, _gk))
    only = ("only-the-cache-changed", _cache_only)
    mods = ["Dict:op.*"]
    cases = [
        Case("cache-hit", hit, ensures=[
            ("cached-entry", lambda c, o: _tuple_result(
                o, lambda a, has, u, tag: z3.And(a == e_amnt, has == e_has,
                                                 z3.Implies(has, u == e_u)))),
            value], result=build_hit, props=["C17", "C02"]),
        Case("resolved", z3.And(lookup, found),
             ensures=[value, cached, inv, only], modifies=mods,
             result=build_fresh, props=["C02", "C17"]),
        Case("undefined", z3.And(lookup, z3.Not(found)),
             raises="UndefinedResultError", props=["C02", "C17"]),
    ]
    if op == OP_DIV:
        cases += [
            Case("same-type", z3.And(direct, ok_direct),
                 ensures=[value, cached, inv, only,
                          ("plain-number", lambda c, o: _tuple_result(
                              o, lambda a, has, u, tag: z3.Not(has)))],
                 modifies=mods, result=build_fresh, props=["C02", "C08"]),
            Case("same-type-not-convertible",
                 z3.And(direct, z3.Not(ok_direct)),
                 raises="UnitConversionError", props=["C08"]),
        ]
    return cases


def _qty_case(ctx, name, when, tcls, amnt_exact, unit_t, props=("C02", "C05")):
    h = ctx.pre
    ctx.axiom(q_round_facts(h, amnt_exact, unit_t))
    has_q, qu = unit_quantum(h, unit_t)
    ctx.axiom(z3.And(z3.Implies(
        z3.And(qu != 0, grid_w(amnt_exact, qu)),
        amnt_exact / qu == z3.ToReal(grid_k(amnt_exact, qu))),
        S.rnd_int_fact(grid_k(amnt_exact, qu), S.DFLT_MODE),
        grid_kept_facts(amnt_exact, qu)),
        "A3: ground instances of lemmas grid/multiple-not-rounded, "
        "field/cancel-common-factor and round_rel/integers-fixed")

    def kept(c, o):
        return qty_result(o, lambda q, ph: z3.Implies(
            z3.And(has_q, qu > 0, grid_w(amnt_exact, qu)),
            amount(ph, q) == amnt_exact))

    def build(c):
        return new_qty(c, tcls, q_round(c.pre, amnt_exact, unit_t),
                       fresh_exact_tag(c), unit_t)
    return Case(name, when, ensures=[
        ("a-multiple-of-the-quantum-is-not-rounded", kept),
        ("class", lambda c, o: qty_result(o, lambda q, ph: cls_of(ph, q) == tcls)),
        ("unit", lambda c, o: qty_result(o, lambda q, ph: unit_of(ph, q) == unit_t)),
        ("amount-rounded-once", lambda c, o: qty_result(
            o, lambda q, ph: amount(ph, q) == q_round(c.pre, amnt_exact, unit_t))),
        ("exact-representation", lambda c, o: qty_result(
            o, lambda q, ph: exact_tag(amount_tag(ph, q)))),
    ], result=build, props=list(props))


def _notimpl_case():
    return Case("not-supported", TRUE,
                ensures=[("notimplemented", lambda c, o: is_notimpl(o))],
                result=lambda c: NOTIMPL_V, props=["C02", "C03"])


# ---------------------------------------------------------------------------
def unit_mul_spec(ctx: Ctx):
    self, other = ctx.a("self"), ctx.a("other")
    h = ctx.pre
    req = [wf_unit(h, self.t)]
    c = qty_cls(h, self.t)
    if is_num(other):
        k = other.known_tag() if isinstance(other, VRat) else T_INT
        if k == T_STDDEC:
            return req, [_notimpl_case()]
        return req, [_qty_case(ctx, "scalar", TRUE, c, num_value(other), self.t)]
    if isinstance(other, VObj) and other.klass == "SIPrefix":
        e = h.get("SIPrefix.exp", other.t)
        return req, [_qty_case(ctx, "si-prefix", TRUE, c,
                               S.qpow(z3.RealVal(10), e, ctx.path), self.t)]
    if isinstance(other, VObj) and other.klass == "Unit":
        return req, unit_pair_cases(ctx, self, other, OP_MUL, req)
    if isinstance(other, VObj) and other.klass == "Qty":
        return req, qty_operand_cases(ctx, self, other, OP_MUL, req)
    return req, [_notimpl_case()]


def qty_operand_cases(ctx, self, other, op, req):
    """unit (*|/) quantity: (unit op other.unit) scaled by other.amount"""
    h = ctx.pre
    ou = VObj(unit_of(h, other.t), "Unit")
    req.append(wf_qty(h, other.t))
    b = amount(h, other.t)
    if op == OP_DIV:
        req.append(b != 0)
    return scaled_pair_cases(ctx, self, ou, op, req,
                             b if op == OP_MUL else 1 / b)


def scaled_pair_cases(ctx, lu, ru, op, req, mult, guard=TRUE, ok=TRUE,
                      bad_exc="ZeroDivisionError"):
    """(lu op ru) scaled by the real `mult`: a plain number when the
    dimensions cancel, else a quantity whose value is rounded once.  The unit
    resolution happens first; when it succeeds but `ok` does not hold (a zero
    divisor) `bad_exc` is raised."""
    h = ctx.pre
    pair = unit_pair_cases(ctx, lu, ru, op, req)
    n, v = op_den(h, z3.IntVal(op), lu.t, ru.t)
    out = []
    for pc in pair:
        when = z3.And(guard, pc.when)
        if pc.raises is not None:
            out.append(Case(pc.name, when, raises=pc.raises, props=pc.props))
            continue
        # value-level postcondition: either a plain number or a quantity whose
        # reference value is the product / quotient
        exact_ref = n * mult

        def value(c, o, exact_ref=exact_ref):
            val = o.value
            if is_num(val):
                return z3.And(v == M.ZERO_VEC, num_value(val) == exact_ref)
            if isinstance(val, VObj) and val.klass == "Qty":
                q, ph = val.t, o.heap
                u = unit_of(ph, q)
                un, uv = unit_den(ph, u)
                return z3.And(
                    uv == v, cls_of(ph, q) == qty_cls(ph, u), wf_unit(ph, u),
                    amount(ph, q) == q_round(ph, exact_ref / un, u),
                    exact_tag(amount_tag(ph, q)))
            return FALSE

        def build(c, pc=pc, exact_ref=exact_ref):
            t = pc.result(c)
            a, u = t.items
            if isinstance(u, VNone):
                return VRat(exact_ref, fresh_exact_tag(c))
            un, _ = unit_den(c.heap, u.t)
            c.axiom(q_round_facts(c.heap, exact_ref / un, u.t))
            return new_qty(c, qty_cls(c.heap, u.t),
                           q_round(c.heap, exact_ref / un, u.t),
                           fresh_exact_tag(c), u.t)
        out.append(Case(pc.name, z3.And(when, ok), ensures=[("value", value)],
                        modifies=pc.modifies, result=build, props=pc.props))
        if not z3.is_true(ok):
            out.append(Case(pc.name + "/zero-divisor",
                            z3.And(when, z3.Not(ok)), raises=bad_exc,
                            modifies=pc.modifies, props=pc.props))
    return out


_MUL_KINDS = ["int", "Decimal", "Fraction", "float", "StdLibDecimal",
              "SIPrefix", "Unit", "Qty", "str", "None"]


def _unit_other(kinds):
    def mk():
        return [Scenario(f"other-{k}", lambda I, f=ALL_KINDS[k]: dict(
            self=sym_obj("self", "Unit"), other=f("other", I))) for k in kinds]
    return mk


register(Contract(K + "Unit.__mul__", unit_mul_spec, _unit_other(_MUL_KINDS),
                  props=["C02", "C17", "C05", "C01"]))
register(Contract(K + "Unit.__rmul__", unit_mul_spec, _unit_other(_MUL_KINDS),
                  props=["C02", "C17", "C05", "C01"]))


def unit_truediv_spec(ctx: Ctx):
    self, other = ctx.a("self"), ctx.a("other")
    h = ctx.pre
    req = [wf_unit(h, self.t)]
    c = qty_cls(h, self.t)
    if is_num(other):
        k = other.known_tag() if isinstance(other, VRat) else T_INT
        if k == T_STDDEC:
            return req, [_notimpl_case()]
        ov = num_value(other)
        return req, [
            Case("zero-divisor", ov == 0, raises="ZeroDivisionError"),
            _qty_case(ctx, "scalar", ov != 0, c, 1 / ov, self.t)]
    if isinstance(other, VObj) and other.klass == "Unit":
        return req, unit_pair_cases(ctx, self, other, OP_DIV, req)
    if isinstance(other, VObj) and other.klass == "Qty":
        return req, qty_operand_cases(ctx, self, other, OP_DIV, req)
    return req, [_notimpl_case()]


register(Contract(K + "Unit.__truediv__", unit_truediv_spec,
                  _unit_other([k for k in _MUL_KINDS if k != "SIPrefix"] +
                              ["SIPrefix"]),
                  props=["C02", "C17", "C08", "C05"]))


# ---------------------------------------------------------------------------
# Unit.__pow__(self, exp)  /  _qty_from_term  /  Unit.__rtruediv__
def pow_den(h, u, e):
    n, v = unit_den(h, u)
    return S.qpow(n, e, None), vec_scale(v, e)


def pow_cases(ctx: Ctx, u, e, req, mult, guard=TRUE, ok=TRUE,
              bad_exc="ZeroDivisionError"):
    """cases for `(mult * amnt) * unit` with (amnt, unit) = u._pow(e), e != 0;
    the resolution of the unit happens first, then `ok` (no zero divisor)"""
    h = ctx.pre
    c = qty_cls(h, u)
    n1, v1 = unit_den(h, u)
    n = S.qpow(n1, e, ctx.path)
    v = M.vscale(v1, e)
    from .term import vec_scale_nonzero
    ctx.axiom(vec_scale_nonzero(v1, e),
              "A3: a non-zero dimension vector scaled by a non-zero integer "
              "is non-zero")
    found, has1, zero, has2, d1, d2 = resolve(h, n, v)
    gen = z3.And(guard, e != 0, e != 1)
    req += [wf_unit(h, u),
            z3.Implies(gen, z3.And(dirinv_at(h, d1), dirinv_at(h, d2)))]
    u1 = reg_first(h, M.G_TERMMAP, d1)
    u2 = reg_first(h, M.G_TERMMAP, d2)
    out = [
        _qty_case(ctx, "power-one", z3.And(guard, e == 1, ok), c, mult, u),
        _qty_case(ctx, "exact-entry", z3.And(gen, has1, ok), qty_cls(h, u1),
                  mult, u1, props=("C02", "C17", "C05")),
        _qty_case(ctx, "entry-without-factor",
                  z3.And(gen, z3.Not(has1), n != 1, has2, ok), qty_cls(h, u2),
                  mult * n, u2, props=("C02", "C17", "C05")),
        Case("undefined", z3.And(gen, z3.Not(found)),
             raises="UndefinedResultError", props=["C02", "C17"]),
    ]
    if not z3.is_true(ok):
        out.append(Case("zero-divisor", z3.And(
            guard, e != 0, z3.Or(e == 1, found), z3.Not(ok)), raises=bad_exc))
    return out


def unit_pow_spec(ctx: Ctx):
    self, exp = ctx.a("self"), ctx.a("exp")
    h = ctx.pre
    req = [wf_unit(h, self.t)]
    if not isinstance(exp, VInt):
        return req, [_notimpl_case()]
    e = exp.t
    cases = [Case("zero", e == 0, ensures=[("one", lambda cx, o: rat_result(
        o, lambda val, t: val == 1))],
        result=lambda cx: VRat(z3.RealVal(1), z3.IntVal(T_DEC)))]
    cases += pow_cases(ctx, self.t, e, req, z3.RealVal(1))
    return req, cases


def unit_rtruediv_spec(ctx: Ctx):
    self, other = ctx.a("self"), ctx.a("other")
    h = ctx.pre
    req = [wf_unit(h, self.t)]
    if not is_num(other) or (isinstance(other, VRat) and
                             other.known_tag() == T_STDDEC):
        return req, [_notimpl_case()]
    return req, pow_cases(ctx, self.t, z3.IntVal(-1), req, num_value(other))


register(Contract(K + "Unit.__rtruediv__", unit_rtruediv_spec,
                  _unit_other(["int", "Decimal", "Fraction", "float",
                               "StdLibDecimal", "Unit", "str", "None"]),
                  props=["C02", "C17", "C05"]))


register(Contract(K + "Unit.__pow__", unit_pow_spec,
                  lambda: [Scenario("exp-int", lambda I: dict(
                      self=sym_obj("self", "Unit"), exp=sym_int("exp"))),
                      Scenario("exp-float", lambda I: dict(
                          self=sym_obj("self", "Unit"),
                          exp=sym_rat("exp", T_FLOAT))),
                      Scenario("exp-None", lambda I: dict(
                          self=sym_obj("self", "Unit"), exp=NONE))],
                  props=["C02", "C17", "C05"]))
