"""Contracts for Quantity.__mul__/__rmul__/__truediv__/__rtruediv__/__pow__
(C02, C05, C17)."""
from __future__ import annotations

import z3

from pyvc import model as M
from pyvc import spec as S
from pyvc.sym import NOTIMPL as NOTIMPL_V
from .common import *
from .registry import *
from .unit_ops import (_notimpl_case, _qty_case, pow_cases, scaled_pair_cases,
                       OP_MUL, OP_DIV)
from .quantity_ops import equiv_amount_cases, qty_arg, _self_other, res_rat

K = "quantity:"
_KINDS = ["int", "Decimal", "Fraction", "float", "StdLibDecimal", "Qty",
          "Unit", "str", "None"]


def _is_stddec(v):
    return isinstance(v, VRat) and v.known_tag() == T_STDDEC


def qty_mul_spec(ctx: Ctx):
    self, other = ctx.a("self"), ctx.a("other")
    h = ctx.pre
    req = [wf_qty(h, self.t)]
    c, u, a = cls_of(h, self.t), unit_of(h, self.t), amount(h, self.t)
    su = VObj(u, "Unit")
    if is_num(other) and not _is_stddec(other):
        return req, [_qty_case(ctx, "scalar", TRUE, c, a * num_value(other), u,
                               props=("C02", "C05", "C03"))]
    if isinstance(other, VObj) and other.klass == "Qty":
        req.append(wf_qty(h, other.t))
        ou = VObj(unit_of(h, other.t), "Unit")
        return req, scaled_pair_cases(ctx, su, ou, OP_MUL, req,
                                      a * amount(h, other.t))
    if isinstance(other, VObj) and other.klass == "Unit":
        return req, scaled_pair_cases(ctx, su, other, OP_MUL, req, a)
    return req, [_notimpl_case()]


register(Contract(K + "Quantity.__mul__", qty_mul_spec, _self_other(_KINDS),
                  props=["C02", "C05", "C17", "C03"]))
register(Contract(K + "Quantity.__rmul__", qty_mul_spec, _self_other(_KINDS),
                  props=["C02", "C05", "C17", "C03"]))


def qty_truediv_spec(ctx: Ctx):
    self, other = ctx.a("self"), ctx.a("other")
    h = ctx.pre
    req = [wf_qty(h, self.t)]
    c, u, a = cls_of(h, self.t), unit_of(h, self.t), amount(h, self.t)
    su = VObj(u, "Unit")
    if is_num(other) and not _is_stddec(other):
        k = num_value(other)
        return req, [Case("zero-divisor", k == 0, raises="ZeroDivisionError"),
                     _qty_case(ctx, "scalar", k != 0, c, a / k, u,
                               props=("C02", "C05"))]
    if isinstance(other, VObj) and other.klass == "Qty":
        same = cls_of(h, other.t) == c
        req.append(wf_qty(h, other.t))
        b = amount(h, other.t)
        ereq, tuples = equiv_amount_cases(h, other.t, su)
        req += [z3.Implies(same, r) for r in ereq]
        cases = []
        for name, when, kind, payload in tuples:
            w = z3.And(same, when)
            if kind == "value":
                cases.append(Case(name + "/zero", z3.And(w, payload == 0),
                                  raises="ZeroDivisionError"))
                cases.append(Case(
                    name, z3.And(w, payload != 0),
                    ensures=[("plain-exact-ratio", lambda cx, o, p=payload:
                              rat_result(o, lambda v, t: z3.And(
                                  v == a / p, exact_tag(t))))],
                    result=res_rat, props=["C02", "C08"]))
            elif kind == "none":
                cases.append(Case(name, w, raises="UnitConversionError",
                                  props=["C08"]))
            else:
                cases.append(Case(name, w, raises=payload))
        ou = VObj(unit_of(h, other.t), "Unit")
        cases += scaled_pair_cases(ctx, su, ou, OP_DIV, req, a / b,
                                   guard=z3.Not(same), ok=b != 0)
        return req, cases
    if isinstance(other, VObj) and other.klass == "Unit":
        same = qty_cls(h, other.t) == c
        ereq, tuples = equiv_amount_cases(h, self.t, other)
        req += [z3.Implies(same, r) for r in ereq]
        cases = []
        for name, when, kind, payload in tuples:
            w = z3.And(same, when)
            if kind == "value":
                cases.append(Case(
                    name, w, ensures=[("equivalent-amount", lambda cx, o,
                                       p=payload: rat_result(
                                           o, lambda v, t: z3.And(
                                               v == p, exact_tag(t))))],
                    result=res_rat, props=["C02", "C08"]))
            elif kind == "none":
                cases.append(Case(name, w, raises="UnitConversionError",
                                  props=["C08"]))
            elif name != "other-class":
                cases.append(Case(name, w, raises=payload))
        cases += scaled_pair_cases(ctx, su, other, OP_DIV, req, a,
                                   guard=z3.Not(same))
        return req, cases
    return req, [_notimpl_case()]


register(Contract(K + "Quantity.__truediv__", qty_truediv_spec,
                  _self_other(_KINDS), props=["C02", "C05", "C08", "C17"]))


def qty_rtruediv_spec(ctx: Ctx):
    self, other = ctx.a("self"), ctx.a("other")
    h = ctx.pre
    req = [wf_qty(h, self.t)]
    a = amount(h, self.t)
    if not is_num(other) or _is_stddec(other):
        return req, [_notimpl_case()]
    return req, pow_cases(ctx, unit_of(h, self.t), z3.IntVal(-1), req,
                          num_value(other) / a, ok=a != 0)


register(Contract(K + "Quantity.__rtruediv__", qty_rtruediv_spec,
                  _self_other(["int", "Decimal", "Fraction", "float",
                               "StdLibDecimal", "Qty", "str", "None"]),
                  props=["C02", "C05", "C17"]))


def qty_pow_spec(ctx: Ctx):
    self, exp = ctx.a("self"), ctx.a("exp")
    h = ctx.pre
    req = [wf_qty(h, self.t)]
    if not isinstance(exp, VInt):
        return req, [_notimpl_case()]
    e = exp.t
    a = amount(h, self.t)
    bad = z3.And(a == 0, e < 0)
    cases = [
        Case("zero", e == 0, ensures=[("one", lambda cx, o: rat_result(
            o, lambda v, t: v == 1))],
            result=lambda cx: VRat(z3.RealVal(1), z3.IntVal(T_DEC))),
    ]
    cases += pow_cases(ctx, unit_of(h, self.t), e, req,
                       S.qpow(a, e, ctx.path), ok=z3.Not(bad),
                       bad_exc="ZeroDivisionError|ValueError")
    return req, cases


register(Contract(K + "Quantity.__pow__", qty_pow_spec,
                  lambda: [Scenario("exp-int", lambda I: dict(
                      self=qty_arg(), exp=sym_int("exp"))),
                      Scenario("exp-Fraction", lambda I: dict(
                          self=qty_arg(), exp=sym_rat("exp", T_FRAC))),
                      Scenario("exp-None", lambda I: dict(
                          self=qty_arg(), exp=NONE))],
                  props=["C02", "C05", "C17"]))
