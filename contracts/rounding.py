"""Contracts for the rounding helpers of quantity/__init__.py (C13)."""
from __future__ import annotations

import z3

from pyvc import spec as S
from pyvc.sym import MODE_ID
from .common import *

K = "quantity:"


# ---------------------------------------------------------------------------
# _floordiv_rounded(x, y, rounding=None) -> int
def _mode_of(rounding):
    return S.DFLT_MODE if isinstance(rounding, VNone) else rounding.t


def floordiv_spec(ctx: Ctx):
    x, y, rounding = ctx.a("x"), ctx.a("y"), ctx.a("rounding")
    requires = [y.t > 0]        # every caller passes a denominator
    mode = _mode_of(rounding)
    quot = z3.ToReal(x.t) / z3.ToReal(y.t)
    exact = x.t % y.t == 0
    valid = z3.And(mode >= 0, mode < 8)

    def res_exact(c):
        return VInt(c.fresh("fdr", z3.IntSort()))

    cases = [
        Case("exact", exact,
             ensures=[("value", lambda c, o: int_result(
                 o, lambda k: z3.ToReal(k) == quot))],
             result=res_exact),
        Case("rounded", z3.And(z3.Not(exact), valid),
             ensures=[("value", lambda c, o: int_result(
                 o, lambda k: S.round_rel(quot, mode, k)))],
             result=res_exact),
        Case("invalid-mode", z3.And(z3.Not(exact), z3.Not(valid)),
             raises="ValueError"),
    ]
    return requires, cases


def floordiv_scenarios():
    return [
        Scenario("default-mode", lambda I: dict(x=sym_int("x"), y=sym_int("y"),
                                                rounding=NONE)),
        Scenario("explicit-mode", lambda I: dict(
            x=sym_int("x"), y=sym_int("y"),
            rounding=sym_int("rounding", enum="ROUNDING"))),
    ]


register(Contract(K + "_floordiv_rounded", floordiv_spec, floordiv_scenarios,
                  props=["C13"], public=False,
                  notes="8 rounding modes against the textbook relation "
                        "round_rel; private helper feeding Quantity.quantize"))


# ---------------------------------------------------------------------------
# _quantize_fraction(self: Fraction, quant: Rational, rounding=None) -> Fraction
def quantize_fraction_spec(ctx: Ctx):
    f, quant, rounding = ctx.a("self"), ctx.a("quant"), ctx.a("rounding")
    mode = _mode_of(rounding)
    from pyvc.builtins_model import rv
    qv = rv(quant)
    ratio = f.t / qv
    # "self is an exact multiple of quant", in the vocabulary of the spec
    # functions numer/denom (n/d == ratio, d > 0)
    is_mult = S.numer(ratio) % S.denom(ratio) == 0
    valid = z3.And(mode >= 0, mode < 8)

    def res(c):
        t = c.fresh("tag", z3.IntSort())
        c.path.assume(exact_tag(t))
        return VRat(c.fresh("qf", z3.RealSort()), t)

    def value(c, o):
        # the multiple selected by the rounding function
        return rat_result(o, lambda v, tag: z3.And(
            exact_tag(tag), v == z3.ToReal(S.rnd(ratio, mode)) * qv))

    def unchanged(c, o):
        # an exact multiple is returned as it is, whatever `rounding` is
        return rat_result(o, lambda v, tag: z3.And(exact_tag(tag), v == f.t))
    cases = [
        Case("zero-quantum", qv == 0, raises="ZeroDivisionError"),
        Case("value", z3.And(qv != 0, valid),
             ensures=[("value", value)], result=res),
        Case("invalid-mode-exact-multiple",
             z3.And(qv != 0, z3.Not(valid), is_mult),
             ensures=[("unchanged", unchanged)], result=res),
        Case("invalid-mode", z3.And(qv != 0, z3.Not(valid), z3.Not(is_mult)),
             raises="ValueError"),
    ]
    ctx.axiom(S.rnd_fact(ratio, mode))
    ctx.axiom(S.rnd_integral_fact(ratio, mode),
              "A3: ground instance of lemma round_rel/integers-fixed")
    ctx.axiom(S.num_den_fact(ratio), "A3: numer/denom are spec functions "
                                     "with numer(x)/denom(x) == x, denom(x) > 0")
    return [], cases


def quantize_fraction_scenarios():
    out = []
    for mname, mk in (("default-mode", lambda: NONE),
                      ("explicit-mode",
                       lambda: sym_int("rounding", enum="ROUNDING"))):
        for qname, qk in (("quant-decimal", T_DEC), ("quant-fraction", T_FRAC)):
            out.append(Scenario(
                f"{mname}/{qname}",
                lambda I, mk=mk, qk=qk: dict(self=sym_rat("f", T_FRAC),
                                             quant=sym_rat("quant", qk),
                                             rounding=mk())))
    return out


register(Contract(K + "_quantize_fraction", quantize_fraction_spec,
                  quantize_fraction_scenarios, props=["C13"], public=False))
