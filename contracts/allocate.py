"""Contract for Quantity.allocate (C06), verified from the real source for
ratio lists of a fixed length n in 1..N_MAX with every element symbolic (loop
and sort unrolled: complete for these lengths, no bound on the values).  The
general length is covered by the bounded stand-in."""
from __future__ import annotations

import z3

from pyvc import spec as S
from pyvc.sym import Unsupported, VList
from .common import *
from .quantity_ops import qty_arg

K = "quantity:"
N_MAX = int(__import__('os').environ.get('PYVC_ALLOC_NMAX', '1'))
HALF_MODES = ("ROUND_HALF_UP", "ROUND_HALF_DOWN", "ROUND_HALF_EVEN")


def _sum(xs):
    acc = xs[0]
    for x in xs[1:]:
        acc = acc + x
    return acc


def allocate_spec(ctx: Ctx):
    self, ratios = ctx.a("self"), ctx.a("ratios")
    disperse = ctx.args.get("disperse_rounding_error")
    h = ctx.pre
    q = self.t
    a, u, c = amount(h, q), unit_of(h, q), cls_of(h, q)
    rs = [num_value(r) for r in ratios.items]
    n = len(rs)
    req = [wf_qty(h, q)] + [r > 0 for r in rs]
    total = _sum(rs)
    has, qu = unit_quantum(h, u)
    mode = S.DFLT_MODE
    # exact shares, built like the code builds them: a * (r_i / total)
    fr = [r / total for r in rs]
    xs = [a * f for f in fr]
    ks = [S.rnd(x / qu, mode) for x in xs]
    es = [z3.ToReal(k) * qu - x for k, x in zip(ks, xs)]
    g = grid_k(a, qu)
    m = g - _sum(ks)                      # remainder in quanta (integer)
    half = z3.Or(*[mode == S.MODE_ID[m_] for m_ in HALF_MODES])
    # ---- ground instances of field / order laws (lemmas allocate/* in
    # lemmas.py prove the schemas for all reals by nlsat) ---------------------
    ctx.axiom(_sum(xs) == a,
              "A3: field law instance sum_i a*(r_i/total) == a for total == "
              "sum_i r_i != 0 (lemma allocate/shares-sum)")
    for k, x, e in zip(ks, xs, es):
        d = z3.ToReal(k) - x / qu
        ctx.axiom(z3.Implies(qu > 0, z3.And(
            e == d * qu,
            z3.Implies(z3.And(-1 < d, d < 1), z3.And(-qu < e, e < qu)),
            z3.Implies(z3.And(-1 <= 2 * d, 2 * d <= 1),
                       z3.And(-qu <= 2 * e, 2 * e <= qu)))),
                  "A3: field / order law instances k*q - x == (k - x/q)*q and "
                  "|d| < 1 => |d*q| < q for q > 0 (lemma allocate/scale)")
        ctx.axiom(S.rnd_fact(x / qu, mode))
    mr = z3.ToReal(m)
    ctx.axiom(z3.Implies(z3.And(has, qu > 0), z3.And(
        a - _sum([z3.ToReal(k) * qu for k in ks]) == mr * qu,
        z3.Implies(mr * qu < n * qu, m < n),
        z3.Implies(mr * qu > -n * qu, m > -n),
        (mr * qu > 0) == (m > 0), (mr * qu < 0) == (m < 0),
        (mr * qu == 0) == (m == 0),
        *[(mr * qu - j * qu == 0) == (m == j) for j in range(-n, n + 1)],
        *[z3.Implies(m == j, mr * qu == j * qu) for j in range(-n, n + 1)],
        # the remainder after moving j quanta is the multiple (m - j) of the
        # quantum: definitional instances of the ghost witness grid_k
        *[z3.And(grid_k(mr * qu - j * qu, qu) == m - j,
                 z3.ToReal(m - j) * qu == mr * qu - j * qu)
          for j in range(-n, n + 1)])),
        "A3: distributivity / cancellation instances (g - sum k_i)*q and "
        "M*q < n*q <=> M < n for q > 0 (lemma allocate/quanta)")

    # |e_i| < q for every portion  =>  the remainder is fewer than n quanta
    # (lemma allocate/quanta-bound: M*q == -(e_1 + .. + e_n), |e_i| < q, q > 0
    #  =>  |M| < n)
    ctx.axiom(z3.Implies(
        z3.And(has, qu > 0, *[z3.And(-qu < e, e < qu) for e in es]),
        z3.And(m < n, m > -n, mr * qu == -_sum(es))),
        "A3: ground instance of lemma allocate/quanta-bound")

    def parts(o):
        v = o.value
        if not (isinstance(v, VTuple) and len(v.items) == 2 and
                isinstance(v.items[0], VList) and len(v.items[0].items) == n):
            return None
        ps, rem = v.items[0].items, v.items[1]
        if not all(isinstance(p, VObj) and p.klass == "Qty" for p in ps + [rem]):
            return None
        return [p.t for p in ps], rem.t

    def on(o, fn):
        pr = parts(o)
        return FALSE if pr is None else fn(pr[0], pr[1], o.heap)

    def own(ps, rem, ph):
        return z3.And(*[z3.And(cls_of(ph, p) == c, unit_of(ph, p) == u,
                               exact_tag(amount_tag(ph, p)), alloc(ph, p))
                        for p in ps + [rem]])

    def conserve(ps, rem, ph):
        return _sum([amount(ph, p) for p in ps]) + amount(ph, rem) == a

    def exact_shares(ps, rem, ph):
        return z3.Implies(z3.Not(has), z3.And(
            amount(ph, rem) == 0, *[amount(ph, p) == x for p, x in zip(ps, xs)]))

    def multiples(ps, rem, ph):
        # every portion is (k_i + d) * quantum with integer k_i and d in
        # {-1, 0, 1}; the remainder is (m - j) * quantum
        return z3.Implies(has, z3.And(
            *[z3.Or(*[amount(ph, p) == z3.ToReal(k) * qu + d * qu
                      for d in (-1, 0, 1)]) for p, k in zip(ps, ks)],
            z3.Or(*[amount(ph, rem) == mr * qu - j * qu
                    for j in range(-n, n + 1)])))

    def deviation(ps, rem, ph):
        return z3.Implies(has, z3.And(*[
            z3.And(amount(ph, p) - x < qu, x - amount(ph, p) < qu)
            for p, x in zip(ps, xs)]))

    def rem_zero(ps, rem, ph):
        return z3.Implies(z3.And(has, ctx_truth(disperse)), amount(ph, rem) == 0)

    def rem_bound(ps, rem, ph):
        r = amount(ph, rem)
        return z3.Implies(z3.And(has, z3.Not(ctx_truth(disperse))),
                          z3.And(r < n * qu, -r < n * qu))

    def rem_bound_half(ps, rem, ph):
        r = amount(ph, rem)
        return z3.Implies(z3.And(has, z3.Not(ctx_truth(disperse)), half),
                          z3.And(2 * r <= n * qu, -2 * r <= n * qu))

    return req, [Case("apportioned", TRUE, ensures=[
        ("own-type-unit-exact", lambda cx, o: on(o, own)),
        ("conservation", lambda cx, o: on(o, conserve)),
        ("exact-shares-without-quantum", lambda cx, o: on(o, exact_shares)),
        ("multiples-of-quantum", lambda cx, o: on(o, multiples)),
        ("less-than-one-quantum-from-share", lambda cx, o: on(o, deviation)),
        ("dispersed-remainder-zero", lambda cx, o: on(o, rem_zero)),
        ("remainder-bound", lambda cx, o: on(o, rem_bound)),
        ("remainder-bound-half-modes", lambda cx, o: on(o, rem_bound_half)),
    ], props=["C06"])]


def ctx_truth(v):
    if v is None:
        return TRUE
    if isinstance(v, VBool):
        return v.t
    raise Unsupported("disperse flag")


def allocate_scenarios():
    out = []
    kinds = [("int",), ("Decimal",), ("Fraction",),
             ("int", "int"), ("Decimal", "Fraction"), ("Fraction", "int"),
             ("int", "int", "int"), ("Decimal", "int", "Fraction")]
    import os
    only = os.environ.get("PYVC_ALLOC_ONLY")
    for ks in kinds:
        if len(ks) > N_MAX or (only and "-".join(ks) != only):
            continue
        for flag in ("sym", "default"):
            def mk(I, ks=ks, flag=flag):
                d = dict(self=qty_arg(),
                         ratios=VList([ALL_KINDS[k](f"r{i}", I)
                                       for i, k in enumerate(ks)]))
                if flag == "sym":
                    d["disperse_rounding_error"] = VBool(z3.Bool("disperse"))
                return d
            out.append(Scenario("ratios-" + "-".join(ks) + "/" + flag, mk))
    return out


_C = register(Contract(K + "Quantity.allocate", allocate_spec, allocate_scenarios,
                  props=["C06"], summarize=False,
                  notes=f"ratio lists of length 1..{N_MAX}, numbers of every "
                        f"exact kind; longer lists and quantity ratios are bounded"))
_C.split_scenarios = True
