"""Independent concrete oracles (DESIGN.md 4.1, concrete twins).  Nothing here
calls the function it specifies: scales come from a walk over the declared
definitions, rounding from the textbook definitions on Fractions."""
from __future__ import annotations

import itertools
import math
from fractions import Fraction
from typing import Any, List, Optional

MODES = ["ROUND_05UP", "ROUND_CEILING", "ROUND_DOWN", "ROUND_FLOOR",
         "ROUND_HALF_DOWN", "ROUND_HALF_EVEN", "ROUND_HALF_UP", "ROUND_UP"]


def F(x) -> Fraction:
    """exact rational value of int / Fraction / decimalfp.Decimal / float /
    decimal.Decimal"""
    if isinstance(x, Fraction):
        return x
    if isinstance(x, int):
        return Fraction(x)
    if isinstance(x, float):
        return Fraction(x)
    n, d = x.as_integer_ratio() if hasattr(x, "as_integer_ratio") else \
        (x.numerator, x.denominator)
    return Fraction(n, d)


def round_mode(x: Fraction, mode: str) -> int:
    """textbook rounding of a rational to an integer"""
    fl = math.floor(x)
    ce = math.ceil(x)
    if fl == ce:
        return fl
    trunc = fl if x >= 0 else ce
    away = ce if x >= 0 else fl
    frac = x - fl
    if mode == "ROUND_FLOOR":
        return fl
    if mode == "ROUND_CEILING":
        return ce
    if mode == "ROUND_DOWN":
        return trunc
    if mode == "ROUND_UP":
        return away
    if mode in ("ROUND_HALF_UP", "ROUND_HALF_DOWN", "ROUND_HALF_EVEN"):
        if frac < Fraction(1, 2):
            return fl
        if frac > Fraction(1, 2):
            return ce
        if mode == "ROUND_HALF_UP":
            return away
        if mode == "ROUND_HALF_DOWN":
            return trunc
        return fl if fl % 2 == 0 else ce
    if mode == "ROUND_05UP":
        return away if abs(trunc) % 10 in (0, 5) else trunc
    raise ValueError(mode)


def chain_scale(unit) -> Fraction:
    """product of the numeric factors along the chain of definitions down to
    the reference unit (never looks at unit._equiv)"""
    d = unit._definition
    if d is None:
        return Fraction(1)
    s = Fraction(1)
    for elem, exp in d._items:
        if hasattr(elem, "_definition") and hasattr(elem, "_symbol"):
            s *= chain_scale(elem) ** exp
        else:
            s *= F(elem) ** exp
    return s


def unit_quantum(unit) -> Optional[Fraction]:
    sf = getattr(unit, "_smallest_fraction", None)
    if sf is not None:
        return F(sf)
    q = unit._qty_cls._quantum
    if q is None:
        return None
    return F(q) / chain_scale(unit)


def dflt_mode() -> str:
    from decimalfp import get_dflt_rounding_mode
    return get_dflt_rounding_mode().name


def q_round(x: Fraction, unit, mode: Optional[str] = None) -> Fraction:
    qu = unit_quantum(unit)
    if qu is None:
        return x
    return round_mode(x / qu, mode or dflt_mode()) * qu


def refval(q) -> Fraction:
    return F(q._amount) * chain_scale(q._unit)


def is_exact(x) -> bool:
    from decimalfp import Decimal
    return isinstance(x, (Decimal, Fraction)) and not isinstance(x, float)


def den(unit):
    """denotation of a unit as a term element: (numeric factor, {base unit
    symbol: exponent}), by an independent walk over the definitions"""
    d = unit._definition
    if d is None:
        return Fraction(1), {unit._symbol: 1}
    num = Fraction(1)
    vec = {}
    for elem, exp in d._items:
        if hasattr(elem, "_definition") and hasattr(elem, "_symbol"):
            n, v = den(elem)
            num *= n ** exp
            for k, e in v.items():
                vec[k] = vec.get(k, 0) + e * exp
        else:
            num *= F(elem) ** exp
    return num, {k: e for k, e in vec.items() if e != 0}


def vec_op(v1, v2, sign):
    out = dict(v1)
    for k, e in v2.items():
        out[k] = out.get(k, 0) + sign * e
    return {k: e for k, e in out.items() if e != 0}


def all_units():
    import quantity
    return list(quantity._SYMBOL_UNIT_MAP.values())
