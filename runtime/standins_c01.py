"""Bounded stand-in for C01 (conversion) on the real code; also the base case
of wf_unit: _equiv == chain_scale for every unit that exists."""
from fractions import Fraction

from decimalfp import Decimal

from . import oracle as O
from . import world as W


def all_linear_classes():
    import quantity.predefined as P
    out = []
    for n in dir(P):
        c = getattr(P, n)
        if isinstance(c, type) and hasattr(c, "ref_unit") and \
                c.__module__ == P.__name__ and c.ref_unit is not None:
            out.append(c)
    return out


def run(job):
    from quantity import IncompatibleUnitsError, Quantity, Unit
    from quantity.predefined import KILOGRAM, METRE
    from quantity.term import Term
    quick = job.tier != "thorough"
    classes = all_linear_classes()
    # user-declared chains: scaled quantities, unit terms, derived units
    c1, u1 = W.chained_type([Decimal(12), Fraction(7, 3), Decimal("0.001"),
                             Fraction(1, 7), 1000])
    c2, u2 = W.linear_type([Fraction(22, 7), Decimal("2.54")])
    from quantity import QuantityMeta
    prod = QuantityMeta(W.uid("VP"), (Quantity,), {}, define_as=c1 * c2)
    pu = [prod.ref_unit, prod.derive_unit_from(u1[2], u2[1]),
          prod.derive_unit_from(u1[5], u2[2])]
    pu.append(prod.new_unit(W.uid("tu"), define_as=Term(((u1[1], 1), (u2[2], 1),
                                                         (Decimal(5), 1)))))
    # units declared by unit terms whose numeric factor carries an exponent
    # other than 1 (jiffy = s / 60), and units chained on top of them
    c3, u3 = W.linear_type([Decimal(1000)])
    r3 = u3[0]
    for items in (((Decimal(60), -1), (r3, 1)), ((Fraction(3, 2), 2), (r3, 1)),
                  ((2, 3), (u3[1], 1)), ((r3, 1), (Decimal(4), -2)),
                  ((Decimal(10), -1), (u3[1], 1), (3, 2)),
                  # two different units of the type in one term, exponents
                  # other than +-1 (their scales must be merged correctly)
                  ((Decimal(10), 1), (u3[1], 1), (r3, 2), (u3[1], -2)),
                  ((u3[1], 3), (r3, -2), (Fraction(1, 2), 1)),
                  ((r3, 2), (u3[1], 2), (r3, -3)),
                  # plain int factors only (the scale must not stay an int:
                  # int / int would be a float)
                  ((1000, 1), (r3, 1)), ((3, 1), (r3, 1)), ((r3, 1), (7, 1))):
        u3.append(c3.new_unit(W.uid("tq"), define_as=Term(items)))
        # the scale as the *given* items define it (the stored definition is
        # already the library's reduction of them)
        given = Fraction(1)
        for el, ex in items:
            given *= (O.chain_scale(el) if hasattr(el, "_symbol") else O.F(el)) ** ex
        if not job.shard:
            job.case("wf/equiv-is-scale-of-given-term", repr(items),
                     O.F(u3[-1]._equiv) == given and
                     O.chain_scale(u3[-1]) == given,
                     repr(u3[-1]._equiv), repr(given))
    u3.append(c3.new_unit(W.uid("tq"), define_as=Decimal(1000) * u3[2]))
    u3.append(c3.new_unit(W.uid("tq"), define_as=Fraction(1, 3) * u3[3]))
    # units of derived types declared as number * unit ** k with k != 1 and a
    # unit that is not the reference unit
    import quantity.predefined as P
    extra = []
    for cls, items in ((P.Area, ((Decimal(5), 1), (P.KILOMETRE, 2))),
                       (P.Volume, ((Fraction(3, 4), 1), (P.CENTIMETRE, 3))),
                       (P.Frequency, ((2, 1), (P.MINUTE, -1))),
                       (P.Area, ((P.INCH, 2), (Decimal(7), 1))),
                       (P.Velocity, ((Decimal(3), 1), (P.MILE, 1), (P.HOUR, -1)))):
        u = cls.new_unit(W.uid("dq"), define_as=Term(items))
        extra.append(u)
        given = Fraction(1)
        for el, ex in items:
            given *= (O.chain_scale(el) if hasattr(el, "_symbol") else O.F(el)) ** ex
        if not job.shard:
            job.case("wf/equiv-is-scale-of-given-term", repr(items),
                     O.F(u._equiv) == given, repr(u._equiv), repr(given))
            q = 3 * u
            r = q.convert(cls.ref_unit)
            job.case("convert/term-declared-unit", repr(items),
                     O.F(r.amount) == 3 * given, repr(r), repr(3 * given))
    groups = [list(c.units()) for c in classes] + [u1, u2, pu, u3]
    job.bound = (f"{len(groups)} linear types, all ordered unit pairs "
                 f"(triples on a sample), {len(W.amounts_grid(job.extra))} amounts")
    # base case of wf_unit
    for g in groups:
        for u in g:
            if job.shard:
                break
            job.case("wf/equiv-is-chain-scale", u.symbol,
                     u._equiv is not None and O.F(u._equiv) == O.chain_scale(u)
                     and O.chain_scale(u) > 0, repr(u._equiv),
                     repr(O.chain_scale(u)))
    amounts = W.amounts_grid(job.extra)
    if quick:
        amounts = amounts[1:3] + amounts[5:7] + amounts[8:10] + list(job.extra)[:6]
    for g in groups:
        units = g if not quick or len(g) <= 4 else g[:2] + g[-2:]
        for ua in units:
            if not job.mine():
                continue
            for ub in units:
                for a in amounts:
                    q = a * ua
                    exp = O.q_round(O.F(q.amount) * O.chain_scale(ua) /
                                    O.chain_scale(ub), ub)
                    try:
                        r = q.convert(ub)
                    except Exception as e:
                        job.case("convert/value", (repr(a), ua.symbol, ub.symbol),
                                 False, repr(e), repr(exp))
                        continue
                    ok = (type(r) is type(q) and r.unit is ub and
                          O.is_exact(r.amount) and O.F(r.amount) == exp)
                    job.case("convert/value", (repr(a), ua.symbol, ub.symbol),
                             ok, repr(r), repr(exp))
                    if ua._qty_cls._quantum is None:
                        back = r.convert(ua)
                        job.case("convert/roundtrip", (repr(a), ua.symbol, ub.symbol),
                                 O.F(back.amount) == O.F(q.amount) and r == q,
                                 repr(back), repr(q))
        if len(units) >= 3:
            ua, ub, uc = units[0], units[len(units) // 2], units[-1]
            for a in amounts:
                q = a * ua
                if ua._qty_cls._quantum is None:
                    job.case("convert/via", (repr(a), ua.symbol, ub.symbol, uc.symbol),
                             O.F(q.convert(ub).convert(uc).amount) ==
                             O.F(q.convert(uc).amount), "", "")
    # other quantity type
    for ua, ub in ((METRE, KILOGRAM), (u1[1], u2[1]), (KILOGRAM, pu[0])):
        try:
            r = (3 * ua).convert(ub)
            job.case("convert/other-type", (ua.symbol, ub.symbol), False,
                     repr(r), "IncompatibleUnitsError")
        except IncompatibleUnitsError:
            job.case("convert/other-type", (ua.symbol, ub.symbol), True)
        except Exception as e:
            job.case("convert/other-type", (ua.symbol, ub.symbol), False,
                     repr(e), "IncompatibleUnitsError")

    # a conversion within a type must not influence a following conversion to
    # a unit of another type whose scales happen to be the same
    if not job.shard:
        seqs = [((P.KILOMETRE, P.METRE), (P.TONNE, P.METRE)),
                ((P.KILOMETRE, P.METRE), (P.KILOWATT, P.KILOGRAM)),
                ((P.MILLIMETRE, P.METRE), (P.GRAM, P.SQUARE_METRE)),
                ((P.KILOGRAM, P.GRAM), (P.METRE, P.MILLISECOND)),
                ((P.HOUR, P.SECOND), (P.KILOWATT_HOUR, P.WATT))]
        for (a1, b1), (a2, b2) in seqs:
            for how in ("convert", "add", "compare", "parse"):
                x = Fraction(7, 2) * a1
                if how == "convert":
                    x.convert(b1)
                elif how == "add":
                    x + 1 * b1
                elif how == "compare":
                    x < 1 * b1
                else:
                    Quantity(f"2 {a1.symbol}", b1)
                y = 2 * a2
                for name, fn in (("convert", lambda: y.convert(b2)),
                                 ("equiv_amount", lambda: y.equiv_amount(b2)),
                                 ("parse", lambda: Quantity(f"5 {a2.symbol}", b2))):
                    try:
                        r = fn()
                        job.case("convert/other-type-after-same-scales",
                                 (how, a1.symbol, b1.symbol, name, a2.symbol,
                                  b2.symbol), False, repr(r),
                                 "IncompatibleUnitsError")
                    except IncompatibleUnitsError:
                        job.case("convert/other-type-after-same-scales",
                                 (how, a1.symbol, b1.symbol, name, a2.symbol,
                                  b2.symbol), True)

    # a quantity type declared as a Python subclass of another one is a type of
    # its own: no conversion between the two (either direction)
    if not job.shard:
        sub = QuantityMeta(W.uid("FlightLevel"), (P.Length,), {},
                           ref_unit_symbol=W.uid("FL"))
        hfl = sub.new_unit(W.uid("hFL"), define_as=Decimal(100) * sub.ref_unit)
        for q, target in ((Fraction(7, 2) * hfl, P.METRE), (2 * sub.ref_unit, P.KILOMETRE),
                          (3 * P.METRE, sub.ref_unit), (3 * P.KILOMETRE, hfl)):
            for name, fn in (("convert", lambda: q.convert(target)),
                             ("equiv_amount", lambda: q.equiv_amount(target)),
                             ("add", lambda: q + 1 * target),
                             ("lt", lambda: q < 1 * target)):
                try:
                    r = fn()
                    job.case("convert/subclass-is-another-type",
                             (repr(q), target.symbol, name), False, repr(r),
                             "IncompatibleUnitsError")
                except IncompatibleUnitsError:
                    job.case("convert/subclass-is-another-type",
                             (repr(q), target.symbol, name), True)
