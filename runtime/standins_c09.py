"""Bounded stand-in for C09 and C10 (exchange rates and their application)."""
import itertools
import math
from fractions import Fraction

from decimalfp import Decimal

from . import oracle as O
from . import world as W

SHARDS = 8
HALF = ("ROUND_HALF_UP", "ROUND_HALF_DOWN", "ROUND_HALF_EVEN")


def magnitude(x: Fraction) -> int:
    m = 0
    while Fraction(10) ** (m + 1) <= x:
        m += 1
    while Fraction(10) ** m > x:
        m -= 1
    return m


def check_normal_form(job, r, true_rate, inp, mode):
    """C09 normal form + accuracy"""
    um, ta = O.F(r._unit_multiple), O.F(r._term_amount)
    k = magnitude(um)
    ok = um == Fraction(10) ** k and k >= 0
    ok = ok and ta > 0 and (ta * 10 ** 6).denominator == 1
    ok = ok and magnitude(ta) >= -1
    err = abs(ta - true_rate * um)
    ok = ok and (err <= Fraction(1, 2 * 10 ** 6) if mode in HALF
                 else err < Fraction(1, 10 ** 6))
    ok = ok and O.F(r.rate) * O.F(r.inverse_rate) == 1
    job.case("rate/normal-form", inp, ok, repr(r), f"true rate {true_rate}")


def run(job):
    from quantity.money import ExchangeRate, Money
    quick = job.tier != "thorough"
    cur = {c: Money.register_currency(c) for c in ("EUR", "USD", "JPY", "HKD",
                                                    "TND", "GBP")}
    worth = dict(EUR=Fraction(1), USD=Fraction(9, 10), JPY=Fraction(1, 160),
                 HKD=Fraction(23, 200), TND=Fraction(3, 10), GBP=Fraction(7, 6))
    multiples = [1, 10, 100, 1000, 9, 8, 25, 3, Decimal(10), Fraction(100),
                 "1000", Decimal("7"), 2 ** 20]
    amounts = [Decimal("0.9683"), Decimal("96.83"), Fraction(1, 3),
               Fraction(2, 7), "0.333333", 0.5, 1, 10, Decimal("0.1"),
               Decimal("0.09999995"), Decimal("0.000001"), Decimal("0.0000015"),
               Decimal("123456.7891234"), Fraction(10 ** 7, 3), "1e-5",
               Decimal("0.5"), Decimal("0.0123456789"), 1e-5, 0.30000000000000004,
               Decimal("999999.9999995"), Fraction(1, 70000)]
    amounts += [x for x in job.extra if x > 0][:4]
    modes = ["ROUND_HALF_EVEN"] if quick else O.MODES
    job.bound = (f"{len(multiples)} unit multiples x {len(amounts)} term "
                 f"amounts (int/Decimal/Fraction/float/str) x {len(modes)} "
                 f"default modes; rejections; inversion; all triangulations "
                 f"over 6 currencies with a worth model")
    for mode in modes:
        W.set_mode(mode)
        for um, ta in itertools.product(multiples, amounts):
            if not job.mine():
                continue
            try:
                r = ExchangeRate(cur["USD"], um, cur["EUR"], ta)
            except Exception as e:
                job.case("rate/valid-input-accepted", (repr(um), repr(ta)),
                         False, repr(e), "a rate")
                continue
            true = O.F(Fraction(ta) if not isinstance(ta, Decimal) else ta) / \
                O.F(Decimal(um))
            check_normal_form(job, r, true, (repr(um), repr(ta), mode), mode)
            if 1 / O.F(r.rate) < Fraction(1, 10 ** 6):
                try:
                    r.inverted()
                    job.case("rate/inverse-too-small", repr(r), False, "", "")
                except ValueError:
                    job.case("rate/inverse-too-small", repr(r), True)
                continue
            inv = r.inverted()
            ok = inv.unit_currency is cur["EUR"] and \
                inv.term_currency is cur["USD"]
            check_normal_form(job, inv, 1 / O.F(r.rate),
                              ("inverted", repr(um), repr(ta), mode), mode)
            job.case("rate/inverted-direction", (repr(um), repr(ta)), ok, "", "")
            # a rate that is itself the result of an inversion is inverted like
            # any other rate: the reciprocal of *its* rate, not the original
            if 1 / O.F(inv.rate) >= Fraction(1, 10 ** 6):
                back = inv.inverted()
                check_normal_form(job, back, 1 / O.F(inv.rate),
                                  ("inverted-twice", repr(um), repr(ta), mode),
                                  mode)
                job.case("rate/inverted-twice-direction", (repr(um), repr(ta)),
                         back.unit_currency is cur["USD"] and
                         back.term_currency is cur["EUR"], "", "")
    W.set_mode("ROUND_HALF_EVEN")
    if job.shard == 0:
        bad = [(cur["USD"], 1, cur["USD"], 1), (cur["USD"], Decimal("2.5"), cur["EUR"], 1),
               (cur["USD"], 0, cur["EUR"], 1), (cur["USD"], -10, cur["EUR"], 1),
               (cur["USD"], Fraction(1, 3), cur["EUR"], 1),
               (cur["USD"], 1, cur["EUR"], 0), (cur["USD"], 1, cur["EUR"], Decimal(0)),
               (cur["USD"], 1, cur["EUR"], -1), (cur["USD"], 1, cur["EUR"], Decimal("-0.5")),
               (cur["USD"], 1, cur["EUR"], Decimal("0.0000009")),
               (cur["USD"], 1, cur["EUR"], Fraction(1, 10 ** 7)),
               (cur["USD"], 1, cur["EUR"], "abc"), (cur["USD"], "x", cur["EUR"], 1),
               ("USD", 1, "USD", 1), ("ZZZ", 1, cur["EUR"], 1), (1, 1, cur["EUR"], 1),
               # the same currency given once as object and once as ISO code
               ("USD", 1, cur["USD"], 1), (cur["EUR"], 1, "EUR", 5),
               ("EUR", 100, cur["EUR"], Decimal("1.5"))]
        for args in bad:
            try:
                r = ExchangeRate(*args)
                job.case("rate/rejected", repr(args), False, repr(r), "exception")
            except Exception:
                job.case("rate/rejected", repr(args), True)
        r = ExchangeRate("USD", 1, "EUR", "0.9")
        job.case("rate/iso-codes", "", r.unit_currency is cur["USD"] and
                 r.term_currency is cur["EUR"], "", "")
    # triangulation with a worth model: rate(a->b) = worth(a)/worth(b)
    names = list(cur)

    def mk(a, b, um=1):
        return ExchangeRate(cur[a], um, cur[b], worth[a] / worth[b] * um)
    for a, b, c in itertools.permutations(names, 3):
        if not job.mine():
            continue
        for um1, um2 in ((1, 1), (100, 1), (1, 1000)):
            r1, r2 = mk(a, b, um1), mk(b, c, um2)
            for name, fn, ua, ub in (("mul", lambda: r1 * r2, a, c),
                                     ("rmul", lambda: r2 * r1, a, c)):
                r = fn()
                # same accuracy: the exact product of the two stored rates,
                # rounded to six digits; direction from the worth model
                true = O.F(r1.rate) * O.F(r2.rate)
                um = O.F(r._unit_multiple)
                err = abs(O.F(r._term_amount) - true * um)
                job.case(f"triangulation/{name}", (a, b, c, um1, um2),
                         r.unit_currency is cur[ua] and r.term_currency is cur[ub]
                         and err <= Fraction(1, 2 * 10 ** 6) and
                         abs(true - worth[ua] / worth[ub]) < Fraction(1, 1000) * true,
                         repr(r), f"{ua}->{ub} {true}")
            # division: common unit currency / common term currency
            r3 = mk(a, c, um2)
            q = r3 / r1           # (a->c) / (a->b) = b->c
            true = O.F(r3.rate) / O.F(r1.rate)
            um = O.F(q._unit_multiple)
            job.case("triangulation/div-common-unit", (a, b, c, um1, um2),
                     q.unit_currency is cur[b] and q.term_currency is cur[c] and
                     abs(O.F(q._term_amount) - true * um) <= Fraction(1, 2 * 10 ** 6)
                     and abs(true - worth[b] / worth[c]) < Fraction(1, 1000) * true,
                     repr(q), f"{b}->{c} {true}")
            r4 = mk(c, b, um2)
            q = r1 / r4           # (a->b) / (c->b) = a->c
            true = O.F(r1.rate) / O.F(r4.rate)
            um = O.F(q._unit_multiple)
            job.case("triangulation/div-common-term", (a, b, c, um1, um2),
                     q.unit_currency is cur[a] and q.term_currency is cur[c] and
                     abs(O.F(q._term_amount) - true * um) <= Fraction(1, 2 * 10 ** 6)
                     and abs(true - worth[a] / worth[c]) < Fraction(1, 1000) * true,
                     repr(q), f"{a}->{c} {true}")
        d = [n for n in names if n not in (a, b, c)][0]
        for name, fn in (("mul", lambda: mk(a, b) * mk(c, d)),
                         ("div", lambda: mk(a, b) / mk(c, d))):
            try:
                r = fn()
                job.case(f"triangulation/{name}-no-shared-currency", (a, b, c, d),
                         False, repr(r), "ValueError")
            except ValueError:
                job.case(f"triangulation/{name}-no-shared-currency", (a, b, c, d),
                         True)
    # ------------------------------------------------------------------ C10
    from quantity import Quantity, QuantityMeta, QuantityError
    import quantity.predefined as P
    money_amounts = [Decimal("10"), Decimal("0.005"), Fraction(1, 3), 5,
                     Decimal("20234966"), Decimal("-7.77"), 0]
    rates = [mk("EUR", "USD"), mk("USD", "JPY"), mk("JPY", "USD", 100),
             ExchangeRate(cur["JPY"], 1, cur["USD"], Decimal("0.007")),
             ExchangeRate(cur["USD"], 1, cur["JPY"], Decimal("142.857143")),
             ExchangeRate(cur["USD"], 1, cur["TND"], Decimal("3.177125"))]
    for mode in modes:
        W.set_mode(mode)
        for r in rates:
            if not job.mine():
                continue
            uc, tc = r.unit_currency, r.term_currency
            for a in money_amounts:
                m = Money(a, uc)
                exp = O.q_round(O.F(m.amount) * O.F(r.rate), tc, mode)
                for name, fn in (("mul", lambda: m * r), ("rmul", lambda: r * m)):
                    x = fn()
                    job.case(f"apply/{name}", (repr(m), repr(r), mode),
                             type(x) is Money and x.unit is tc and
                             O.F(x.amount) == exp, repr(x), repr(exp))
                m2 = Money(a, tc)
                exp = O.q_round(O.F(m2.amount) * O.F(r.inverse_rate), uc, mode)
                x = m2 / r
                job.case("apply/div", (repr(m2), repr(r), mode),
                         type(x) is Money and x.unit is uc and
                         O.F(x.amount) == exp, repr(x), repr(exp))
                for name, fn in (("mul", lambda: m2 * r if uc is not tc else None),
                                 ("div", lambda: m / r)):
                    try:
                        x = fn()
                        job.case(f"apply/{name}-other-currency", (repr(a), repr(r)),
                                 False, repr(x), "ValueError")
                    except ValueError:
                        job.case(f"apply/{name}-other-currency", (repr(a), repr(r)),
                                 True)
    W.set_mode("ROUND_HALF_EVEN")
    if job.shard != 1:
        return
    # compound units
    PPM = QuantityMeta(W.uid("PricePerMass"), (Quantity,), {},
                       define_as=Money / P.Mass)
    PPV = QuantityMeta(W.uid("PricePerVol"), (Quantity,), {},
                       define_as=Money / P.Volume)
    eur_kg = PPM.derive_unit_from(cur["EUR"], P.KILOGRAM)
    usd_kg = PPM.derive_unit_from(cur["USD"], P.KILOGRAM)
    eur_g = PPM.derive_unit_from(cur["EUR"], P.GRAM)
    eur_lb = PPM.derive_unit_from(cur["EUR"], P.POUND)
    eur_l = PPV.derive_unit_from(cur["EUR"], P.LITRE)
    usd_m3 = PPV.derive_unit_from(cur["USD"], P.CUBIC_METRE)
    r = ExchangeRate(cur["EUR"], 1, cur["USD"], Decimal("1.09827"))
    cases = [(eur_kg, usd_kg, 1), (eur_g, usd_kg, 1000),
             (eur_lb, usd_kg, 1 / Fraction("0.45359237")), (eur_l, usd_m3, 1000)]
    for a in (Decimal("0.25"), Fraction(2, 3), 7):
        for src, dst, f in cases:
            q = a * src
            for name, fn in (("mul", lambda: q * r), ("rmul", lambda: r * q)):
                x = fn()
                exp = O.F(a) * O.F(r.rate) * f
                job.case(f"compound/{name}", (repr(q), repr(r)),
                         type(x) is type(q) and x.unit is dst and
                         O.F(x.amount) == exp, repr(x), repr(exp))
            if dst is usd_kg and src is eur_kg:
                back = (a * dst) / r
                exp = O.F(a) * O.F(r.inverse_rate)
                job.case("compound/div", (repr(a * dst), repr(r)),
                         type(back) is type(q) and back.unit is eur_kg and
                         O.F(back.amount) == exp, repr(back), repr(exp))
    r_jpy = ExchangeRate(cur["EUR"], 1, cur["JPY"], 160)
    r_usd_jpy = ExchangeRate(cur["USD"], 1, cur["JPY"], 150)
    for q, rate, why in ((1 * eur_kg, r_jpy, "target unit not declared"),
                         (1 * eur_kg, r_usd_jpy, "currency does not match"),
                         (3 * P.KILOGRAM, r, "no money involved"),
                         (2 * P.METRE_PER_SECOND, r, "no money involved")):
        for name, fn in (("mul", lambda: q * rate), ("div", lambda: q / rate)):
            try:
                x = fn()
                job.case(f"compound/{name}-rejected", (repr(q), repr(rate), why),
                         False, repr(x), "QuantityError")
            except QuantityError:
                job.case(f"compound/{name}-rejected", (repr(q), repr(rate), why),
                         True)
            except Exception as e:
                job.case(f"compound/{name}-rejected", (repr(q), repr(rate), why),
                         False, repr(e), "QuantityError")

    # the same rate object used in the valid and then in the wrong direction
    # on one compound unit (nothing remembered from the first use)
    for q in (8 * eur_kg, Fraction(1, 3) * eur_g):
        x = r * q
        job.case("compound/mul-then-wrong-direction", repr(q),
                 x.unit is usd_kg, repr(x), "")
        for name, fn in (("div", lambda: q / r),):
            try:
                y = fn()
                job.case(f"compound/{name}-rejected",
                         (repr(q), repr(r), "currency does not match (after a "
                                            "valid use of the same rate)"),
                         False, repr(y), "QuantityError")
            except QuantityError:
                job.case(f"compound/{name}-rejected", (repr(q), repr(r), "after"),
                         True)
        q2 = 8 * usd_kg
        y = q2 / r
        job.case("compound/div-after-mul", repr(q2),
                 y.unit is eur_kg and O.F(y.amount) == 8 * O.F(r.inverse_rate),
                 repr(y), "")
        try:
            z = r * q2
            job.case("compound/mul-rejected", (repr(q2), repr(r), "after div"),
                     False, repr(z), "QuantityError")
        except QuantityError:
            job.case("compound/mul-rejected", (repr(q2), repr(r), "after div"), True)
    # a money-per-X type nested in another compound type
    Fee = QuantityMeta(W.uid("StorageFee"), (Quantity,), {},
                       define_as=PPM / P.Duration)
    eur_kg_d = Fee.derive_unit_from(eur_kg, P.DAY)
    usd_kg_d = Fee.derive_unit_from(usd_kg, P.DAY)
    for a in (Decimal("2.5"), Fraction(1, 7)):
        fee = a * eur_kg_d
        for name, fn in (("mul", lambda: fee * r), ("rmul", lambda: r * fee)):
            try:
                x = fn()
                job.case(f"compound/nested-{name}", repr(fee),
                         x.unit is usd_kg_d and
                         O.F(x.amount) == O.F(a) * O.F(r.rate), repr(x), "")
            except Exception as e:
                job.case(f"compound/nested-{name}", repr(fee), False, repr(e),
                         "a fee in USD/kg/d")
        try:
            back = (a * usd_kg_d) / r
            job.case("compound/nested-div", repr(a),
                     back.unit is eur_kg_d and
                     O.F(back.amount) == O.F(a) * O.F(r.inverse_rate),
                     repr(back), "")
        except Exception as e:
            job.case("compound/nested-div", repr(a), False, repr(e), "a fee in EUR/kg/d")
