"""Bounded stand-in for C13 (quantize / round) on the real code."""
from fractions import Fraction

from decimalfp import Decimal, ROUNDING

from . import oracle as O
from . import world as W


def as_decimal(x: Fraction):
    try:
        return Decimal(x)
    except ValueError:
        return None


def run(job):
    from quantity import Quantity
    from quantity.predefined import (CENTIMETRE, INCH, KILOMETRE, METRE, MILE,
                                     Length, Temperature, CELSIUS, KILOGRAM)
    quick = job.tier != "thorough"
    cls2, us2 = W.linear_type([Fraction(7, 3), Decimal("0.125")])
    clsq, usq = W.linear_type([Decimal(8), Fraction(3, 4)],
                              quantum=Fraction(1, 4))
    unit_sets = [[METRE, KILOMETRE, INCH], us2, usq]
    if not quick:
        unit_sets[0] += [MILE, CENTIMETRE]
    quanta = [Decimal(1), Fraction(1, 3), Decimal("0.05")]
    if not quick:
        quanta += [Decimal("0.5"), Decimal(3)]
    if not quick:
        quanta += [Decimal("0.25"), Fraction(2, 7), Decimal(1000),
                   Decimal("0.000001")]
    quanta += [q for q in (abs(x) for x in job.extra) if q > 0][:4]
    # negative quanta select from the same multiples (the ratio amount / quantum
    # is what is rounded); Decimal and Fraction amounts must still agree
    quanta += [Decimal(-1), Fraction(-1, 3)]
    ks = range(-4, 5) if quick else range(-12, 13)
    job.bound = (f"{sum(len(u) for u in unit_sets)} units x {len(quanta)} "
                 f"quanta x ties k*nq/2 (k in {ks.start}..{ks.stop - 1}) "
                 f"+- eps x 8 modes x explicit/default x Decimal/Fraction")
    eps = Fraction(1, 10 ** 9)
    for units in unit_sets:
        for su in units[:2] if quick else units:
            for qu in units:
                for qa in quanta:
                    if not job.mine():
                        continue
                    try:
                        quant = qa * qu
                    except Exception:
                        continue
                    if O.F(quant.amount) == 0:
                        continue
                    nq = O.F(quant.amount) * O.chain_scale(qu) / O.chain_scale(su)
                    vals = set()
                    for k in ks:
                        vals.add(k * nq / 2)
                        if k % 3 == 0:
                            vals.add(k * nq / 2 + eps * nq)
                            vals.add(k * nq / 2 - eps * nq)
                    for mi, mode in enumerate(O.MODES):
                        for explicit in (True, False):
                            if quick and (mi + 2 * explicit + job._turn) % 4:
                                continue
                            W.set_mode(mode if not explicit else
                                       O.MODES[(mi + 3) % 8])
                            for v in vals:
                                _one(job, su, quant, v, nq, mode, explicit)
    W.set_mode("ROUND_HALF_EVEN")
    # rejections
    for bad, exp in (((1 * KILOGRAM), TypeError),):
        try:
            (1 * METRE).quantize(bad)
            job.case("quantize/other-type", repr(bad), False, "no error", exp)
        except exp:
            job.case("quantize/other-type", repr(bad), True)
        except Exception as e:
            job.case("quantize/other-type", repr(bad), False, repr(e), exp)
    try:
        (1 * CELSIUS).quantize(1 * CELSIUS)
        job.case("quantize/no-ref-unit", "1 C", False, "no error", TypeError)
    except TypeError:
        job.case("quantize/no-ref-unit", "1 C", True)
    except Exception as e:
        job.case("quantize/no-ref-unit", "1 C", False, repr(e), TypeError)
    # round(q, n)
    for u in (METRE, KILOMETRE, us2[1]):
        if not job.mine():
            continue
        for a in W.amounts_grid(job.extra):
            for n in (0, 1, 3):
                q = a * u
                r = round(q, n)
                ok = (type(r) is type(q) and r.unit is q.unit and
                      abs(O.F(r.amount) - O.F(q.amount)) <= Fraction(1, 2 * 10 ** n)
                      and (O.F(r.amount) * 10 ** n).denominator == 1)
                job.case("round/n-digits", (repr(a), u.symbol, n), ok,
                         repr(r), "amount rounded to n digits, same unit/type")


def _one(job, su, quant, v, nq, mode, explicit):
    reps = [v]
    d = as_decimal(v)
    if d is not None:
        reps.append(d)
    results = []
    for a in reps:
        q = a * su
        base = O.F(q.amount)       # quantized types round on construction
        exp = O.q_round(O.round_mode(base / nq, mode) * nq, su) \
            if base != 0 else base
        try:
            r = q.quantize(quant, getattr(ROUNDING, mode)) if explicit \
                else q.quantize(quant)
        except Exception as e:
            job.case("quantize/value", (repr(a), su.symbol, repr(quant), mode,
                                        explicit), False, repr(e), repr(exp))
            continue
        ok = (type(r) is type(q) and r.unit is su and O.F(r.amount) == exp
              and O.is_exact(r.amount))
        job.case("quantize/value", (repr(a), su.symbol, repr(quant), mode,
                                    explicit), ok, repr(r), repr(exp))
        results.append(O.F(r.amount))
    if len(results) == 2:
        job.case("quantize/representation-independent",
                 (repr(v), su.symbol, repr(quant), mode, explicit),
                 results[0] == results[1], results, "equal")
