"""Scenario templates: synthetic quantity types declared through the real API,
next to the predefined catalogue.  Names are made unique per call because the
library's directories are process-global."""
from __future__ import annotations

import itertools
from fractions import Fraction
from typing import List, Optional, Sequence

from decimalfp import Decimal

_counter = itertools.count()


def uid(prefix: str) -> str:
    return f"{prefix}{next(_counter)}"


def linear_type(scales: Sequence, quantum=None, name: Optional[str] = None):
    """fresh quantity type with a reference unit and one unit per scale
    (declared as `scale * ref_unit`); returns (cls, [ref_unit, units...])"""
    from quantity import Quantity, QuantityMeta
    n = name or uid("VT")
    kw = dict(ref_unit_symbol=f"{n}r")
    if quantum is not None:
        kw["quantum"] = quantum
    cls = QuantityMeta(n, (Quantity,), {}, **kw)
    units = [cls.ref_unit]
    for i, s in enumerate(scales):
        units.append(cls.new_unit(f"{n}u{i}", define_as=s * cls.ref_unit))
    return cls, units


def chained_type(factors: Sequence, quantum=None):
    """units defined as a chain: u0 = f0*ref, u1 = f1*u0, ..."""
    from quantity import Quantity, QuantityMeta
    n = uid("VC")
    kw = dict(ref_unit_symbol=f"{n}r")
    if quantum is not None:
        kw["quantum"] = quantum
    cls = QuantityMeta(n, (Quantity,), {}, **kw)
    units = [cls.ref_unit]
    for i, f in enumerate(factors):
        units.append(cls.new_unit(f"{n}u{i}", define_as=f * units[-1]))
    return cls, units


def table_type(n_units: int = 3):
    from quantity import Quantity, QuantityMeta
    n = uid("VN")
    cls = QuantityMeta(n, (Quantity,), {})
    units = [cls.new_unit(f"{n}u{i}") for i in range(n_units)]
    return cls, units


def amounts_grid(extra=()) -> List:
    base = [0, 1, -1, 3, Decimal("0.5"), Decimal("-2.5"), Decimal("1.005"),
            Decimal("123456789.987654321"), Fraction(1, 3), Fraction(-7, 6),
            Fraction(5, 2), Fraction(10 ** 12 + 1, 7), Decimal("0.000001")]
    return base + list(extra)


def set_mode(name: str):
    from decimalfp import ROUNDING, set_dflt_rounding_mode
    set_dflt_rounding_mode(getattr(ROUNDING, name))
