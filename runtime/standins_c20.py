"""Ground check for C20 on the live objects of quantity.predefined against the
hand-written reference table (exhaustive: every unit, every ordered pair per
type, every prefix, every documentation row)."""
import itertools
import json
import os
from fractions import Fraction

from decimalfp import Decimal

from . import oracle as O

SHARDS = 4


def run(job):
    import quantity.predefined as P
    from quantity import Unit, si_prefixes
    here = os.path.dirname(os.path.dirname(os.path.abspath(__file__)))
    table = json.load(open(os.path.join(here, "spec", "si_units.json"),
                           encoding="utf-8"))
    quick = job.tier != "thorough"
    amounts = [Decimal("2.5"), Fraction(-7, 3), 1, Fraction(1, 3),
               Decimal("0.0003")]
    n = 0
    job.bound = "all 113 predefined units, all ordered pairs per type, 20 " \
                "prefixes, all documentation rows (exhaustive)"
    for cname, entry in table.items():
        if not isinstance(entry, dict) or "units" not in entry:
            continue
        cls = getattr(P, cname)
        syms = list(entry["units"])
        if job.shard == 0:
            # only the types the table names are quantized (DataVolume: 1/8 B)
            q_exp = table.get("quantum", {}).get(cname)
            q_got = cls.quantum
            job.case("type/quantum", cname,
                     (q_got is None) if q_exp is None else
                     (q_got is not None and O.F(q_got) == Fraction(q_exp)),
                     repr(q_got), repr(q_exp))
            job.case("type/units-listed", cname,
                     sorted(u.symbol for u in cls.units()) == sorted(syms),
                     sorted(u.symbol for u in cls.units()), sorted(syms))
        if entry["ref"] is None:
            continue
        ref = cls.ref_unit
        for sym, val in entry["units"].items():
            u = Unit(sym)
            exp = Fraction(val)
            if job.shard == 0:
                job.case("unit/scale", sym, u.qty_cls is cls and
                         O.F(u._equiv) == exp and O.chain_scale(u) == exp and
                         O.F((1 * u).convert(ref).amount) ==
                         O.q_round(exp, ref), repr(u._equiv), val)
        for sa, sb in itertools.permutations(syms, 2):
            n += 1
            if n % job.nshards != job.shard:
                continue
            ua, ub = Unit(sa), Unit(sb)
            ratio = Fraction(entry["units"][sa]) / Fraction(entry["units"][sb])
            for a in (amounts[:1] if quick else amounts):
                r = (a * ua).convert(ub)
                exp = O.q_round(O.F((a * ua).amount) * ratio, ub)
                job.case("pair/conversion-by-ratio-of-reference-scales",
                         (repr(a), sa, sb), O.F(r.amount) == exp and r.unit is ub,
                         repr(r), repr(exp))
    if job.shard:
        return
    for name, exp in table["si_prefixes"].items():
        p = getattr(si_prefixes, name)
        job.case("prefix/factor", name, O.F(p.factor) == Fraction(10) ** exp and
                 p.exp == exp, repr(p.factor), f"10**{exp}")
    job.case("prefix/complete", "", len(si_prefixes.SI_PREFIXES) == 20 and
             len(si_prefixes.SI_PREFIX_MAP) == 20, "", "")
    # documentation rows against the live objects
    import re
    doc = P.__doc__
    rows = re.findall(r"^(\S+)\s{1,6}(\S.*?)\s{2,}(\S+)\s{2,}(\S+)\s*$", doc, re.M)
    cnt = 0
    for sym, name, definition, equiv in rows:
        if sym in ("Symbol", "======"):
            continue
        try:
            u = Unit(sym)
            exp = Fraction(equiv)
        except ValueError:
            continue
        cnt += 1
        job.case("doc/equivalent", sym, u._equiv is not None and
                 O.F(u._equiv) == exp, repr(u._equiv), equiv)
    job.case("doc/rows-found", cnt, cnt >= 90, cnt, ">= 90 rows")
