"""Bounded stand-in for C11: random histories of MoneyConverter.update calls
(every kind and spelling of validity, overlapping and repeated keys) followed
by lookups, against a dict model keyed by the canonical period."""
import datetime
import itertools
from fractions import Fraction

from decimalfp import Decimal

from . import oracle as O
from . import world as W

SHARDS = 8


def canon(v):
    """canonical period of a validity in any accepted spelling (independent
    of the library): None | int | (y, m) | date; ValueError if invalid"""
    if v is None:
        return None
    if isinstance(v, datetime.date):
        return v
    if isinstance(v, str):
        parts = v.split("-")
        if len(parts) == 1:
            v = int(parts[0])
        elif len(parts) == 2:
            v = (parts[0], parts[1])
            if not (len(parts[0]) == 4 and len(parts[1]) == 2):
                raise ValueError(v)
        elif len(parts) == 3:
            if not (len(parts[0]) == 4 and len(parts[1]) == 2 and
                    len(parts[2]) == 2):
                raise ValueError(v)
            return datetime.date(int(parts[0]), int(parts[1]), int(parts[2]))
        else:
            raise ValueError(v)
    if isinstance(v, tuple):
        y, m = int(v[0]), int(v[1])
        datetime.date(y, m, 1)
        if y > 9999 or y < 1:
            raise ValueError(v)
        return (y, m)
    if isinstance(v, int):
        datetime.date(v, 1, 1)
        return v
    raise ValueError(v)


def period_of(kind, d):
    if kind is type(None):
        return None
    if kind is int:
        return d.year
    if kind is tuple:
        return (d.year, d.month)
    return d


def spellings(kind, rng):
    y, m, d = rng.choice([2019, 2020, 2021]), rng.randint(1, 12), rng.randint(1, 28)
    if kind == "none":
        return [None]
    if kind == "year":
        return [y, str(y), f"{y:04d}"]
    if kind == "month":
        return [(y, m), f"{y:04d}-{m:02d}", (str(y), str(m)), (y, str(m)),
                (str(y), f"{m:02d}")]
    return [datetime.date(y, m, d), f"{y:04d}-{m:02d}-{d:02d}"]


def run(job):
    from quantity import UnitConversionError
    from quantity.money import ExchangeRate, Money, MoneyConverter
    quick = job.tier != "thorough"
    rng = job.rng
    rng.seed(job.seed * 7919 + job.shard)
    cur = [Money.register_currency(c) for c in ("EUR", "USD", "JPY", "HKD", "GBP")]
    base = cur[0]
    n_hist = 12 if quick else 120
    job.bound = (f"{n_hist} random histories per shard x {SHARDS} shards: 3..8 "
                 f"updates in every spelling of the period + stale-cache "
                 f"probes, then all ordered currency pairs x dates")
    today = {"d": datetime.date(2020, 6, 15)}
    for hno in range(n_hist):
        kind = rng.choice(["none", "year", "month", "day"])
        conv = MoneyConverter(base, lambda: today["d"])
        model = {}
        kind_type = None
        probes = []
        for step in range(rng.randint(3, 8)):
            v = rng.choice(spellings(kind, rng))
            specs = []
            for c in rng.sample(cur[1:], rng.randint(0, 3)):
                um = rng.choice([1, 1, 100, 1000])
                ta = rng.choice([Decimal("1.1"), Decimal("0.0073"), Fraction(7, 3),
                                 "131.5", 0.85, Decimal("151.237")])
                specs.append((c, ta, um))
            # the term currency of a spec may also be given as ISO code
            conv.update(v, [(c.symbol if rng.random() < 0.4 else c, ta, um)
                            for c, ta, um in specs])
            cv = canon(v)
            kind_type = type(cv)
            for c, ta, um in specs:
                model[(cv, c)] = ExchangeRate(base, um, c, ta)
            # interleave lookups (stale results must not be remembered): the
            # same dates are looked up again after every later update, and
            # the default date is looked up under a moving clock
            for dprev in probes[-3:]:
                check_lookups(job, conv, model, kind_type, cur, base, [dprev],
                              (hno, step, "again"), today)
            if rng.random() < 0.6:
                d0 = datetime.date(rng.choice([2019, 2020, 2021]),
                                   rng.randint(1, 12), rng.randint(1, 28))
                probes.append(d0)
                check_lookups(job, conv, model, kind_type, cur, base, [d0],
                              (hno, step), today)
                today["d"] = d0
                check_lookups(job, conv, model, kind_type, cur, base, [None],
                              (hno, step, "default"), today)
        # mixing kinds of validity is rejected without changing the converter
        other = [k for k in ["none", "year", "month", "day"] if k != kind]
        for ok_ in other:
            v = rng.choice(spellings(ok_, rng))
            before = dict(conv._rate_dict)
            try:
                conv.update(v, [(cur[1], 1, 1)])
                job.case("update/mixed-kinds-rejected", (kind, repr(v)), False,
                         "accepted", "ValueError")
            except ValueError:
                job.case("update/mixed-kinds-rejected", (kind, repr(v)),
                         dict(conv._rate_dict) == before, "", "")
        # a validity whose type is a subclass of the established kind's type
        # (a datetime on a daily converter, a bool on a yearly one): either it
        # is rejected and nothing changes, or it is taken as the period it
        # spells; the lookups below decide, nothing else is demanded
        odd = {"day": datetime.datetime(2020, 3, 16, 12, 30),
               "year": True}.get(kind)
        if odd is not None:
            before = dict(conv._rate_dict)
            try:
                conv.update(odd, [(cur[1], Decimal("7"), 1)])
            except ValueError:
                job.case("update/subclass-validity-rejected", (kind, repr(odd)),
                         dict(conv._rate_dict) == before, "", "")
            else:
                cv = odd.date() if kind == "day" else int(odd)
                model[(cv, cur[1])] = ExchangeRate(base, 1, cur[1], Decimal("7"))
            check_lookups(job, conv, model, kind_type, cur, base,
                          probes[-2:] + [datetime.date(2020, 3, 16)],
                          (hno, "after-subclass-validity"), today)
        dates = [datetime.date(y, m, d) for y in (2019, 2020, 2021)
                 for m in (1, 6, 12) for d in (1, 15, 28)]
        rng.shuffle(dates)
        check_lookups(job, conv, model, kind_type, cur, base,
                      probes[-3:] + dates[:2 if quick else 12], (hno, "final"),
                      today)
        # default effective date comes from the configured callable
        for dd in dates[4:(5 if quick else 6)]:
            today["d"] = dd
            check_lookups(job, conv, model, kind_type, cur, base, [None],
                          (hno, "default", str(dd)), today)


def check_lookups(job, conv, model, kind_type, cur, base, dates, tag, today):
    from quantity import UnitConversionError
    from quantity.money import Money
    for d in dates:
        eff = d if d is not None else today["d"]
        per = period_of(kind_type, eff) if kind_type is not None else None
        for a, b in itertools.product(cur, cur):
            def entry(c):
                return model.get((per, c)) if kind_type is not None else None
            if a is b:
                exp = Fraction(1)
            elif a is base:
                e = entry(b)
                exp = None if e is None else O.F(e.rate)
            elif b is base:
                e = entry(a)
                exp = None if e is None else ("inv", O.F(e.inverse_rate))
            else:
                ea, eb = entry(a), entry(b)
                exp = None if ea is None or eb is None else \
                    ("quot", O.F(eb.rate) / O.F(ea.rate))
            # a derived rate below 0.000001 cannot be represented: rejected
            # like any too small amount (C09)
            too_small = isinstance(exp, tuple) and exp[1] < Fraction(1, 10 ** 6)
            try:
                r = conv.get_rate(a, b, d)
            except ValueError as e:
                if too_small:
                    job.case("get_rate/derived-rate-too-small", (tag, a.symbol,
                             b.symbol, str(d)), True)
                    continue
                if a is b:
                    job.case("get_rate/same-currency", (a.symbol,), False,
                             repr(e), "a rate of one",
                             signature="get_rate(X, X)")
                else:
                    job.case("get_rate/value", (tag, a.symbol, b.symbol, str(d)),
                             False, repr(e), repr(exp))
                continue
            if too_small:
                job.case("get_rate/derived-rate-too-small", (tag, a.symbol,
                         b.symbol, str(d)), False, repr(r), "ValueError")
                continue
            if a is b:
                job.case("get_rate/same-currency", (a.symbol,),
                         r is not None and O.F(r.rate) == 1, repr(r),
                         "a rate of one", signature="get_rate(X, X)")
                continue
            if exp is None:
                ok = r is None
            elif isinstance(exp, tuple):
                # derived rates are rounded to six digits like any rate
                um = O.F(r._unit_multiple) if r is not None else 1
                ok = r is not None and r.unit_currency is a and \
                    r.term_currency is b and \
                    abs(O.F(r._term_amount) - exp[1] * um) <= Fraction(1, 2 * 10 ** 6)
            else:
                ok = r is not None and r.unit_currency is a and \
                    r.term_currency is b and O.F(r.rate) == exp
            job.case("get_rate/value", (tag, a.symbol, b.symbol, str(d)), ok,
                     repr(r), repr(exp))
            # calling the converter multiplies by exactly the reported rate
            m = Money(Decimal("12.34"), a)
            try:
                x = conv(m, b, d)
                job.case("call/amount-times-reported-rate",
                         (tag, a.symbol, b.symbol, str(d)),
                         r is not None and O.F(x) == O.F(r.rate) * O.F(m.amount),
                         repr(x), "")
            except UnitConversionError:
                job.case("call/amount-times-reported-rate",
                         (tag, a.symbol, b.symbol, str(d)), r is None, "", "")
