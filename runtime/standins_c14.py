"""Bounded stand-in for C14 (table converters) on the real code."""
import operator
from fractions import Fraction

from decimalfp import Decimal

from . import oracle as O
from . import world as W

SHARDS = 4

# defining relations written by hand (NOT taken from the code):
#   K = C + 273.15 ; F = C * 9/5 + 32
def to_celsius(x: Fraction, u: str) -> Fraction:
    if u == "°C":
        return x
    if u == "K":
        return x - Fraction("273.15")
    return (x - 32) * Fraction(5, 9)


def from_celsius(c: Fraction, u: str) -> Fraction:
    if u == "°C":
        return c
    if u == "K":
        return c + Fraction("273.15")
    return c * Fraction(9, 5) + 32


def run(job):
    from quantity import (Quantity, TableConverter, UnitConversionError,
                          IncompatibleUnitsError)
    from quantity.predefined import (CELSIUS, FAHRENHEIT, KELVIN, Temperature,
                                     METRE)
    quick = job.tier != "thorough"
    units = [CELSIUS, FAHRENHEIT, KELVIN]
    amounts = (W.amounts_grid(job.extra) if not quick else
               W.amounts_grid()[:3] + W.amounts_grid()[8:10] +
               list(job.extra)[:4]) + [Decimal("273.15"), 32, -40,
                                      Decimal("-459.67"), Fraction(160, 9)]
    job.bound = (f"3 temperature units x {len(amounts)} amounts (pairs, "
                 f"triples, comparisons); user tables in mapping and list "
                 f"form, one / both directions, stacked converters")
    for ua in units:
        for ub in units:
            if not job.mine():
                continue
            for a in amounts:
                q = a * ua
                exp = from_celsius(to_celsius(O.F(q.amount), ua.symbol), ub.symbol)
                r = q.convert(ub)
                job.case("temperature/convert", (repr(a), ua.symbol, ub.symbol),
                         type(r) is Temperature and r.unit is ub and
                         O.F(r.amount) == exp and O.is_exact(r.amount),
                         repr(r), repr(exp))
                job.case("temperature/roundtrip", (repr(a), ua.symbol, ub.symbol),
                         O.F(r.convert(ua).amount) == O.F(q.amount) and r == q,
                         "", "")
                for uc in units:
                    job.case("temperature/via", (repr(a), ua.symbol, ub.symbol,
                                                 uc.symbol),
                             O.F(r.convert(uc).amount) == O.F(q.convert(uc).amount),
                             "", "")
                for b in amounts[::3]:
                    y = b * ub
                    cx = to_celsius(O.F(q.amount), ua.symbol)
                    cy = to_celsius(O.F(y.amount), ub.symbol)
                    for name, op in (("lt", operator.lt), ("le", operator.le),
                                     ("eq", operator.eq), ("gt", operator.gt),
                                     ("ge", operator.ge), ("ne", operator.ne)):
                        job.case(f"temperature/{name}", (repr(q), repr(y)),
                                 op(q, y) is op(cx, cy), op(q, y), op(cx, cy))
    if job.shard:
        return
    # fixed points
    fp = [(0 * CELSIUS, KELVIN, Fraction("273.15")), (0 * CELSIUS, FAHRENHEIT, 32),
          (-40 * CELSIUS, FAHRENHEIT, -40), (0 * KELVIN, FAHRENHEIT,
                                            Fraction("-459.67"))]
    for q, u, exp in fp:
        job.case("temperature/fixed-point", (repr(q), u.symbol),
                 O.F(q.convert(u).amount) == exp and q == q.convert(u),
                 repr(q.convert(u)), repr(exp))
    try:
        (1 * CELSIUS).convert(METRE)
        job.case("temperature/other-type", "", False, "", "IncompatibleUnitsError")
    except IncompatibleUnitsError:
        job.case("temperature/other-type", "", True)
    # user tables
    import itertools as _it
    for form, both, (f2, o2) in _it.product(
            ("mapping", "list"), (False, True),
            ((Decimal(4), Fraction(-1, 8)), (3, 1), (-2, 0),
             (Fraction(5, 2), Decimal("0.3")), (7, Fraction(1, 3)))):
        if True:
            cls, us = W.table_type(4)
            f1, o1 = Fraction(7, 3), Decimal("1.5")
            rows = [(us[0], us[1], f1, o1), (us[1], us[2], f2, o2)]
            if both:
                rows.append((us[1], us[0], 1 / Fraction(f1), -O.F(o1) / f1))
            # a later row for the same pair wins (list form)
            if form == "list":
                rows.insert(0, (us[0], us[1], Decimal(99), Decimal(99)))
                conv = TableConverter(rows)
            else:
                conv = TableConverter({(r[0], r[1]): (r[2], r[3]) for r in rows})
            # no converter yet
            try:
                (1 * us[0]).convert(us[1])
                job.case("table/no-converter", form, False, "", "UnitConversionError")
            except UnitConversionError:
                job.case("table/no-converter", form, True)
            job.case("table/no-converter-eq", form,
                     ((1 * us[0]) == (1 * us[1])) is False, "", False)
            cls.register_converter(conv)
            for a in amounts:
                q = a * us[0]
                r = q.convert(us[1])
                exp = O.F(a) * f1 + O.F(o1)
                job.case("table/forward", (form, both, repr(a)),
                         O.F(r.amount) == exp and r.unit is us[1] and
                         type(r) is cls, repr(r), repr(exp))
                back = r.convert(us[0])
                job.case("table/reverse-roundtrip", (form, both, repr(a)),
                         O.F(back.amount) == O.F(a) and back.unit is us[0],
                         repr(back), repr(a))
                job.case("table/reverse-repeated", (form, both, repr(a)),
                         O.F(r.convert(us[0]).amount) == O.F(a), "", "")
                q2 = a * us[2]
                r2 = q2.convert(us[1])
                exp2 = (O.F(a) - O.F(o2)) / O.F(f2)
                job.case("table/reverse-only", (form, both, repr(a), repr(f2)),
                         O.F(r2.amount) == exp2 and
                         not isinstance(r2.amount, float) and
                         O.F(r2.convert(us[2]).amount) == O.F(a) and
                         (q2 == r2) is True and (r2 == q2) is True,
                         repr(r2), repr(exp2))
                job.case("table/same-unit", (form, both, repr(a)),
                         O.F(q.convert(us[0]).amount) == O.F(a), "", "")
                job.case("table/eq-across-units", (form, both, repr(a)),
                         (q == r) is True and (r == q) is True and
                         (q < r) is False and (q <= r) is True, "", "")
            for ua, ub in ((us[0], us[3]), (us[3], us[2]), (us[0], us[2])):
                try:
                    r = (2 * ua).convert(ub)
                    job.case("table/not-tabulated", (form, ua.symbol, ub.symbol),
                             False, repr(r), "UnitConversionError")
                except UnitConversionError:
                    job.case("table/not-tabulated", (form, ua.symbol, ub.symbol),
                             True)
            # a second, more recent converter that does not cover the pair
            # must not shadow the first; one that does, wins
            conv2 = TableConverter([(us[3], us[2], Decimal(2), Decimal(0))])
            cls.register_converter(conv2)
            r = (3 * us[0]).convert(us[1])
            job.case("table/fallthrough-to-older-converter", form,
                     O.F(r.amount) == 3 * f1 + O.F(o1), repr(r), "")
            conv3 = TableConverter([(us[0], us[1], Decimal(1), Decimal(-5))])
            cls.register_converter(conv3)
            r = (5 * us[0]).convert(us[1])
            job.case("table/zero-result-is-an-answer", form,
                     O.F(r.amount) == 0, repr(r), "0 from the newest converter")
            cls.remove_converter(conv3)
            r = (5 * us[0]).convert(us[1])
            job.case("table/after-remove", form,
                     O.F(r.amount) == 5 * f1 + O.F(o1), repr(r), "")
