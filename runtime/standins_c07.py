"""Bounded stand-in for C07: exhaustive small-scope terms over three universes
of elements (real units, classes with definitions -- two of them with the
same name --, and a synthetic element class with convertible, nested and
tie-breaking elements), against an independent denotation (Fraction factor,
{base element: exponent})."""
import itertools
from fractions import Fraction
from numbers import Rational

from decimalfp import Decimal

from . import oracle as O

SHARDS = 12


# ---- synthetic elements (independent of the library; table driven) ---------
class SElem:
    """element of the synthetic universe: (name, sort key, factor to the base
    element of its group or None, definition or None)"""
    TABLE = {}

    def __init__(self, name, key, group=None, factor=None, defn=None,
                 convertible=True):
        self.name, self.key, self.group = name, key, group or name
        self.factor, self.defn, self.convertible = factor, defn, convertible
        SElem.TABLE[name] = self

    def is_base_elem(self):
        return self.defn is None

    @property
    def definition(self):
        from quantity.term import Term
        return Term([(self, 1)]) if self.defn is None else Term(self.defn)

    @property
    def normalized_definition(self):
        return self.definition.normalized()

    def norm_sort_key(self):
        return self.key

    def _get_factor(self, other):
        if not isinstance(other, SElem) or other.group != self.group:
            raise TypeError
        if self.factor is None or other.factor is None or not self.convertible:
            return None if self is not other else 1
        return self.factor / other.factor

    def __repr__(self):
        return self.name

    __str__ = __repr__


def synthetic():
    SElem.TABLE.clear()
    a = SElem("a", 10, factor=Decimal(1))
    b = SElem("b", 20, factor=Decimal(1))
    c = SElem("c", 30, factor=Decimal(1))
    a10 = SElem("a10", 10, "a", Decimal(10), [(Decimal(10), 1), (a, 1)])
    a3 = SElem("a3", 10, "a", Fraction(1, 3), [(Fraction(1, 3), 1), (a, 1)])
    d = SElem("d", 40, factor=Decimal(1), defn=[(a, 1), (b, 2)])
    e5 = SElem("e5", 50, factor=Decimal(1), defn=[(5, 1), (d, 1), (c, -1)])
    # same sort key, not convertible (like the temperature units)
    p = SElem("p", 60, "pq", convertible=False)
    q = SElem("q", 60, "pq", convertible=False)
    return [a, b, c, a10, a3, d, e5, p, q]


def den_selem(el):
    if el.defn is None:
        return Fraction(1), {id(el): 1}
    return den_items(el.defn, den_selem)


def den_cls(cls):
    d = cls._definition
    if d is None or len(d._items) == 0:
        return Fraction(1), {id(cls): 1}
    return den_items(d._items, den_cls)


def den_unit(u):
    n, v = O.den(u)
    return n, v


def den_items(items, den_elem):
    num, vec = Fraction(1), {}
    for elem, exp in items:
        if isinstance(elem, Rational):
            num *= O.F(elem) ** exp
        else:
            n, v = den_elem(elem)
            num *= n ** exp
            for k, e in v.items():
                vec[k] = vec.get(k, 0) + e * exp
    return num, {k: e for k, e in vec.items() if e != 0}


def mul_den(d1, d2, sign=1):
    return d1[0] * d2[0] ** sign, O.vec_op(d1[1], d2[1], sign)


def pow_den(d, n):
    return d[0] ** n, {k: e * n for k, e in d[1].items() if e * n != 0}


def same_items(i1, i2):
    if len(i1) != len(i2):
        return False
    for (e1, x1), (e2, x2) in zip(i1, i2):
        if x1 != x2:
            return False
        if isinstance(e1, Rational) or isinstance(e2, Rational):
            if not (isinstance(e1, Rational) and isinstance(e2, Rational)
                    and O.F(e1) == O.F(e2)):
                return False
        elif e1 is not e2:
            return False
    return True


def exact(x):
    return isinstance(x, (int, Decimal, Fraction)) and \
        not isinstance(x, (bool, float))


def no_float(items):
    return all(not isinstance(el, (float, complex)) and
               (not isinstance(el, Rational) or exact(el))
               for el, _ in items)


def universes(quick):
    import quantity.predefined as P
    from quantity import Unit
    from quantity.cwdmeta import ClassWithDefinitionMeta
    from quantity.term import Term
    syms = ["kg", "g", "lb", "m", "km", "s", "h", "N", "kWh", "km/h", "K", "°C",
            "b", "m²"] if quick else \
        ["kg", "g", "lb", "oz", "m", "km", "in", "s", "h", "N", "J", "kWh", "km/h",
         "K", "°C", "°F", "B", "b", "m²", "ha", "l", "W", "Hz", "kB/s"]
    units = [Unit(s) for s in syms]
    # an alias of a base unit: equal to it (units compare by scale), but a
    # derived element that must be expanded by normalisation
    import quantity.predefined as _P
    from . import world as _W
    units.append(_P.Length.new_unit(_W.uid("mx"), define_as=Decimal(1) * _P.METRE))

    def declare(name, define_as=None):
        return ClassWithDefinitionMeta(name, (), {}, define_as=define_as)
    s1, s2, oth = declare("Sample"), declare("Sample"), declare("Other")
    ratio = declare("Ratio", s1 / s2)
    mixed = declare("Mixed", oth * s2 ** 2)
    nested = declare("Nested", mixed / ratio)
    classes = [s1, s2, oth, ratio, mixed, nested]
    from quantity.cwdmeta import ClassDefT
    return [("unit", units, den_unit, Term),
            ("class", classes, den_cls, ClassDefT),
            ("synthetic", synthetic(), den_selem, Term)]


NUMS_Q = [2, -3, Decimal("0.5"), Fraction(2, 3), 1]
NUMS_T = [2, -3, Decimal("0.5"), Decimal(10), Fraction(2, 3), 1, Fraction(-7, 4)]


def shape_ok(items, den_elem):
    """at most one numeric factor in front (exponent 1, not 1), then base
    elements only, each once, non-zero exponents"""
    seen = set()
    for i, (el, x) in enumerate(items):
        if isinstance(el, Rational):
            if i != 0 or x != 1 or O.F(el) == 1 or not exact(el):
                return False
        else:
            n, v = den_elem(el)
            if n != 1 or v != {id(el): 1} and v != {getattr(el, "_symbol", None): 1}:
                return False
            if x == 0 or id(el) in seen:
                return False
            seen.add(id(el))
    return True


def run(job):
    quick = job.tier != "thorough"
    exps = [-2, -1, 0, 1, 3] if quick else [-3, -2, -1, 0, 1, 2, 3]
    total = 0
    NUMS = NUMS_Q if quick else NUMS_T
    for uname, elems, den_elem, TermCls in universes(quick):
        pool = [(el, x) for el in elems for x in exps] + \
               [(n, x) for n in NUMS for x in ([-1, 1, 2] if quick
                                               else [-3, -2, -1, 0, 1, 2, 3])]
        # ---- every term with 1..3 items (3: sampled) ---------------------
        singles = [(it,) for it in pool]
        doubles = list(itertools.product(pool, pool))
        job.rng.seed(job.seed + 17)
        if quick:
            doubles = job.rng.sample(doubles, min(4000, len(doubles)))
        triples = [tuple(job.rng.choice(pool) for _ in range(3))
                   for _ in range(600 if quick else 20000)]
        longer = [tuple(job.rng.choice(pool) for _ in range(job.rng.randint(4, 7)))
                  for _ in range(150 if quick else 4000)]
        by_den = {}
        terms = []
        for items in itertools.chain(singles, doubles, triples, longer):
            total += 1
            if not job.mine():
                continue
            want = den_items(items, den_elem)
            try:
                t = TermCls(items)
            except Exception as e:
                job.case(f"{uname}/construct", items, False, repr(e), "a term")
                continue
            job.case(f"{uname}/construct-preserves-value", items,
                     den_items(t._items, den_elem) == want and
                     no_float(t._items), t._items, want)
            nt = t.normalized()
            job.case(f"{uname}/normalized-preserves-value", items,
                     den_items(nt._items, den_elem) == want, nt._items, want)
            job.case(f"{uname}/normal-form-shape", items,
                     shape_ok(nt._items, den_elem) and no_float(nt._items),
                     nt._items, "one exact number, then base elements once each")
            job.case(f"{uname}/normalized-idempotent", items,
                     nt.normalized() is nt and nt.is_normalized and
                     (TermCls(nt._items).normalized()._items == nt._items),
                     nt._items, "")
            key = (want[0], tuple(sorted(want[1].items(), key=repr)))
            first = by_den.setdefault(key, nt)
            job.case(f"{uname}/one-normal-form-per-value", items,
                     same_items(first._items, nt._items),
                     nt._items, first._items)
            job.case(f"{uname}/equal-terms-hash-equal", items,
                     hash(t) == hash(first) == hash(nt) and t == first and
                     first == t, "", "")
            ne = t.num_elem
            num, rest = t.split()
            first_num = t._items and isinstance(t._items[0][0], Rational)
            job.case(f"{uname}/num_elem-and-split", items,
                     (ne is None) == (not first_num) and
                     (ne is None or not isinstance(ne, float)) and
                     mul_den((O.F(num), {}), den_items(rest._items, den_elem))
                     == want, (ne, num, rest._items), want)
            if len(terms) < (36 if quick else 220) and (len(items) <= 2 or
                                                        total % 11 == 0):
                terms.append((items, t, want))
        def canon(r, want):
            """the result of an operation behaves like any other term of its
            value: normal form of the right shape, identical to the normal
            form first seen for that value, equal and hash-equal to it"""
            nr = r.normalized()
            if den_items(nr._items, den_elem) != want or \
                    not shape_ok(nr._items, den_elem) or not no_float(nr._items):
                return False
            key = (want[0], tuple(sorted(want[1].items(), key=repr)))
            first = by_den.setdefault(key, nr)
            return same_items(first._items, nr._items) and r == first and \
                first == r and hash(r) == hash(first)
        # ---- pairs: equality, group operations ---------------------------
        for (i1, t1, d1), (i2, t2, d2) in itertools.product(terms, terms):
            inp = (i1, i2)
            job.case(f"{uname}/eq-iff-same-value", inp,
                     (t1 == t2) is (d1 == d2) and (t1 != t2) is (d1 != d2),
                     t1 == t2, d1 == d2)
            if d1 == d2:
                job.case(f"{uname}/eq-implies-hash-eq", inp,
                         hash(t1) == hash(t2), "", "")
            p = t1 * t2
            job.case(f"{uname}/product", inp,
                     den_items(p._items, den_elem) == mul_den(d1, d2) and
                     no_float(p._items) and p == t2 * t1 and
                     canon(p, mul_den(d1, d2)), p._items, "")
            q = t1 / t2
            job.case(f"{uname}/quotient", inp,
                     den_items(q._items, den_elem) == mul_den(d1, d2, -1) and
                     no_float(q._items) and q == t1 * t2.reciprocal() and
                     canon(q, mul_den(d1, d2, -1)), q._items, "")
        for i1, t1, d1 in terms:
            r = t1.reciprocal()
            job.case(f"{uname}/reciprocal", i1,
                     den_items(r._items, den_elem) == pow_den(d1, -1) and
                     no_float(r._items) and
                     den_items(r.normalized()._items, den_elem) == pow_den(d1, -1)
                     and shape_ok(r.normalized()._items, den_elem) and
                     (r * t1) == TermCls(()) and
                     same_items(r.normalized()._items,
                                (TermCls(()) / t1).normalized()._items),
                     r._items, "")
            # the same again on a term already used (memoised normal form)
            t1.normalized()
            hash(t1)
            r2 = t1.reciprocal()
            job.case(f"{uname}/reciprocal-after-normalisation", i1,
                     r2 == r and hash(r2) == hash(r) and
                     shape_ok(r2.normalized()._items, den_elem) and
                     same_items(r2.normalized()._items, r.normalized()._items),
                     r2._items, r._items)
            n1 = t1.normalized()
            r3 = n1.reciprocal()
            job.case(f"{uname}/reciprocal-of-normal-form", i1,
                     r3 == r and hash(r3) == hash(r) and
                     shape_ok(r3.normalized()._items, den_elem) and
                     same_items(r3.normalized()._items, r.normalized()._items),
                     r3.normalized()._items, r.normalized()._items)
            for n in (-2, -1, 0, 1, 2, 3):
                pw = t1 ** n
                job.case(f"{uname}/power", (i1, n),
                         den_items(pw._items, den_elem) == pow_den(d1, n) and
                         no_float(pw._items) and canon(pw, pow_den(d1, n)) and
                         (n != 0 or pw == TermCls(())) and
                         (n != 2 or pw == t1 * t1) and
                         (n != -1 or pw == t1.reciprocal()), pw._items, "")
            for x in NUMS:
                for name, fn, dd in (
                        ("mul", lambda: t1 * x, mul_den(d1, (O.F(x), {}))),
                        ("rmul", lambda: x * t1, mul_den(d1, (O.F(x), {}))),
                        ("div", lambda: t1 / x, mul_den(d1, (O.F(x), {}), -1)),
                        ("rdiv", lambda: x / t1, mul_den((O.F(x), {}), d1, -1))):
                    rr = fn()
                    job.case(f"{uname}/number-{name}", (i1, x),
                             den_items(rr._items, den_elem) == dd and
                             no_float(rr._items) and canon(rr, dd),
                             rr._items, dd)
    job.bound = (f"3 universes (real units incl. convertible and nested ones, "
                 f"classes with definitions incl. two of one name, synthetic "
                 f"elements): all terms of 1 item and {'up to 4000 sampled' if quick else 'all'} terms of 2 items per universe over elements x "
                 f"exponents {exps} and {len(NUMS)} numbers, sampled terms of 3..7 items, "
                 f"all ordered pairs of a term sample, powers -2..3")
