"""Bounded stand-in for C19 (equal objects hash equal) on the real code."""
import itertools
from fractions import Fraction

from decimalfp import Decimal

from . import oracle as O
from . import world as W

SHARDS = 4


def run(job):
    import quantity.predefined as P
    from quantity import Quantity, TableConverter
    from quantity.term import Term
    from quantity.money import ExchangeRate, Money
    quick = job.tier != "thorough"
    c2, u2 = W.linear_type([Fraction(7, 3), Decimal("0.125"), Fraction(7, 3)])
    groups = [[P.METRE, P.KILOMETRE, P.INCH, P.MILE],
              [P.LITRE, P.CUBIC_DECIMETRE, P.MILLILITRE, P.CUBIC_CENTIMETRE],
              [P.JOULE, P.NEWTON_METRE, P.WATT_SECOND, P.KILOWATT_HOUR],
              [P.BYTE, P.BIT, P.KILOBIT], u2]
    amounts = W.amounts_grid(job.extra)[:8]
    job.bound = (f"{len(groups)} linear types x unit pairs x {len(amounts)} "
                 f"amounts (Decimal and Fraction twins); same-scale units; "
                 f"table types; terms; exchange rates")
    for g in groups:
        for ua, ub in itertools.product(g, g):
            if not job.mine():
                continue
            for a in amounts:
                x = a * ua
                y = x.convert(ub)
                twins = [y]
                fa = O.F(y.amount)
                twins.append(Quantity(Fraction(fa), ub))
                try:
                    twins.append(Quantity(Decimal(fa), ub))
                except ValueError:
                    pass
                for t in twins:
                    if x == t:
                        job.case("quantity/eq-implies-hash",
                                 (repr(x), repr(t)),
                                 hash(x) == hash(t) and len({x, t}) == 1,
                                 (hash(x), hash(t)), "equal hashes")
            if ua is not ub and ua == ub:
                job.case("unit/eq-implies-hash", (ua.symbol, ub.symbol),
                         hash(ua) == hash(ub), "hashes differ", "equal hashes",
                         signature="distinct units of one type with the same scale")
            elif ua is ub:
                job.case("unit/eq-implies-hash", (ua.symbol, ub.symbol),
                         hash(ua) == hash(ub), "", "")
    if job.shard:
        return
    # table types: equality goes through converters
    for x, y in ((0 * P.CELSIUS, 32 * P.FAHRENHEIT),
                 (Decimal("273.15") * P.KELVIN, 0 * P.CELSIUS),
                 (-40 * P.CELSIUS, -40 * P.FAHRENHEIT)):
        if x == y:
            job.case("quantity/eq-implies-hash", (repr(x), repr(y)),
                     hash(x) == hash(y), "hashes differ", "equal hashes",
                     signature="equal quantities of a type without reference "
                               "unit in different units (via converter)")
    for x, y in ((20 * P.CELSIUS, Fraction(20) * P.CELSIUS),
                 (Decimal("0.5") * P.KELVIN, Fraction(1, 2) * P.KELVIN)):
        job.case("quantity/eq-implies-hash", (repr(x), repr(y)),
                 x == y and hash(x) == hash(y), "", "")
    # terms
    elems = [P.METRE, P.SECOND, P.KILOGRAM, P.KILOMETRE, P.NEWTON, P.CELSIUS,
             P.KELVIN]
    terms = []
    for n in (1, 2, 3):
        for combo in itertools.permutations(elems, n):
            if len(terms) > (150 if quick else 1500):
                break
            exps = [(-1) ** i * (1 + i % 2) for i in range(n)]
            terms.append(Term(list(zip(combo, exps))))
            terms.append(Term([(Decimal(2), 1)] + list(zip(combo, exps))))
            terms.append(Term(list(zip(combo, exps)) + [(4, 1), (2, -1)]))
    for i, t1 in enumerate(terms):
        for t2 in terms[i:i + 40]:
            if t1 == t2:
                job.case("term/eq-implies-hash", (repr(t1), repr(t2)),
                         hash(t1) == hash(t2), "", "")
    # exchange rates
    EUR = Money.register_currency("EUR")
    USD = Money.register_currency("USD")
    JPY = Money.register_currency("JPY")
    rates = []
    for um, ta in ((1, Decimal("0.9683")), (100, Decimal("96.83")),
                   (1, Fraction(9683, 10000)), (10, "9.683"),
                   (1, Fraction(1, 3)), (1, Decimal("0.333333")),
                   (3, 1), (1, Decimal("0.3333334")), (1, Decimal("0.3333331"))):
        rates.append(ExchangeRate(USD, um, EUR, ta))
    rates += [r.inverted().inverted() for r in rates[:6]]
    rates += [ExchangeRate(USD, 1, JPY, 150) * ExchangeRate(JPY, 100, EUR, Decimal("0.62")),
              ExchangeRate(USD, 1, EUR, Decimal("0.93"))]
    for r1, r2 in itertools.product(rates, rates):
        if r1 == r2:
            job.case("rate/eq-implies-hash", (repr(r1), repr(r2)),
                     hash(r1) == hash(r2) and len({r1, r2}) == 1, "", "")
