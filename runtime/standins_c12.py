"""Bounded stand-in for C12: all histories of register / unregister / enter /
leave (normally or by exception) / convert over three money converters up to
a bounded length, against a list model; generic converter registries."""
import itertools
from fractions import Fraction

from decimalfp import Decimal

from . import oracle as O
from . import world as W

SHARDS = 8


def run(job):
    from quantity import UnitConversionError, TableConverter
    from quantity.money import Money, MoneyConverter
    EUR = Money.register_currency("EUR")
    USD = Money.register_currency("USD")
    quick = job.tier != "thorough"
    maxlen = 4 if quick else 6
    convs = []
    for i, rate in enumerate((Decimal("1.1"), Decimal("1.2"), Decimal("1.3"))):
        c = MoneyConverter(EUR)
        c.update(None, [(USD, rate, 1)])
        convs.append((c, rate))
    # a fourth converter that has no rate for the pair: when it is the most
    # recent one the conversion fails, whatever older converters know
    GBP = Money.register_currency("GBP")
    c = MoneyConverter(EUR)
    c.update(None, [(GBP, Decimal("0.9"), 1)])
    convs.append((c, None))
    actions = [("reg", i) for i in range(4)] + [("unreg", i) for i in range(4)] \
        + [("convert", None)]
    job.bound = (f"all histories of length <= {maxlen} over 4 converters (one "
                 f"without a rate for the pair) x "
                 f"{{register, unregister, convert}} + with-block nestings "
                 f"(normal / exceptional exit)")
    for n in range(1, maxlen + 1):
        for hist in itertools.product(actions, repeat=n):
            if not job.mine():
                continue
            model = []
            ok_all = True
            trace = []
            for act, i in hist:
                if act == "reg":
                    Money.register_converter(convs[i][0])
                    model.append(i)
                elif act == "unreg":
                    try:
                        Money.remove_converter(convs[i][0])
                        raised = False
                    except (ValueError, IndexError):
                        raised = True
                    should = not (model and model[-1] == i)
                    if not should:
                        model.pop()
                    if raised != should:
                        ok_all = False
                        trace.append(("unreg", i, raised, should))
                else:
                    try:
                        r = Money(10, EUR).convert(USD)
                        got = O.F(r.amount)
                    except UnitConversionError:
                        got = None
                    exp = O.F(10 * convs[model[-1]][1]) \
                        if model and convs[model[-1]][1] is not None else None
                    if got != exp:
                        ok_all = False
                        trace.append(("convert", got, exp))
                live = [next(k for k, (c, _) in enumerate(convs) if c is x)
                        for x in reversed(list(Money.registered_converters()))]
                if live != model:
                    ok_all = False
                    trace.append(("list", live, list(model)))
            job.case("money/history", hist, ok_all, trace, "list model")
            # clean up through the API
            while model:
                Money.remove_converter(convs[model.pop()][0])
    if job.shard:
        return
    # with-blocks incl. exceptional exit
    def rate_of(i):
        return None if convs[i][1] is None else O.F(10 * convs[i][1])

    def conv_now():
        try:
            return O.F(Money(10, EUR).convert(USD).amount)
        except UnitConversionError:
            return None
    # nestings with the same converter entered again below another one
    for order in itertools.product(range(4), repeat=3):
        with convs[order[0]][0]:
            a = conv_now()
            with convs[order[1]][0]:
                b = conv_now()
                with convs[order[2]][0]:
                    c = conv_now()
                b2 = conv_now()
            a2 = conv_now()
        job.case("money/with-uses-innermost", order,
                 (a, b, c, b2, a2) == (rate_of(order[0]), rate_of(order[1]),
                                       rate_of(order[2]), rate_of(order[1]),
                                       rate_of(order[0])) and
                 list(Money.registered_converters()) == [],
                 (a, b, c, b2, a2), "rate of the innermost entered converter")
    for order in itertools.permutations(range(3), 3):
        for fail_at in (None, 0, 1, 2):
            try:
                with convs[order[0]][0]:
                    a = O.F(Money(10, EUR).convert(USD).amount)
                    if fail_at == 0:
                        raise KeyError("boom")
                    with convs[order[1]][0]:
                        b = O.F(Money(10, EUR).convert(USD).amount)
                        if fail_at == 1:
                            raise KeyError("boom")
                        with convs[order[2]][0]:
                            c = O.F(Money(10, EUR).convert(USD).amount)
                            if fail_at == 2:
                                raise KeyError("boom")
                        b2 = O.F(Money(10, EUR).convert(USD).amount)
                        job.case("money/with-restores-inner", (order, fail_at),
                                 b2 == b, b2, b)
            except KeyError:
                pass
            left = list(Money.registered_converters())
            try:
                Money(10, EUR).convert(USD)
                after = "converted"
            except UnitConversionError:
                after = "UnitConversionError"
            job.case("money/with-restores-all", (order, fail_at),
                     left == [] and after == "UnitConversionError",
                     (len(left), after), "no converter left")
    # a converter other than a MoneyConverter is rejected
    try:
        Money.register_converter(TableConverter({}))
        job.case("money/register-non-money-converter", "", False, "", "TypeError")
    except TypeError:
        job.case("money/register-non-money-converter", "",
                 list(Money.registered_converters()) == [], "", "")
    # generic registries
    cls, us = W.table_type(3)
    t = [TableConverter([(us[0], us[1], Decimal(k), Decimal(0))])
         for k in (2, 3, 5)]
    gen_actions = [("reg", i) for i in range(3)] + [("rem", i) for i in range(3)]
    for n in range(1, (4 if quick else 5) + 1):
        for hist in itertools.product(gen_actions, repeat=n):
            model = []
            ok_all = True
            for act, i in hist:
                if act == "reg":
                    cls.register_converter(t[i])
                    if i not in model:
                        model.append(i)
                else:
                    try:
                        cls.remove_converter(t[i])
                        raised = False
                    except ValueError:
                        raised = True
                    if i in model:
                        model.remove(i)
                        ok_all &= not raised
                    else:
                        ok_all &= raised
                live = [next(k for k, c in enumerate(t) if c is x)
                        for x in reversed(list(cls.registered_converters()))]
                ok_all &= live == model
                try:
                    got = O.F((1 * us[0]).convert(us[1]).amount)
                except UnitConversionError:
                    got = None
                exp = [2, 3, 5][model[-1]] if model else None
                ok_all &= got == exp
            job.case("generic/history", hist, ok_all, "", "list model")
            for i in list(model):
                cls.remove_converter(t[i])
