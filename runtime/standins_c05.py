"""Bounded stand-in for C05 (quantized types: on the grid, rounded once)."""
import operator
from fractions import Fraction

from decimalfp import Decimal

from . import oracle as O
from . import world as W


def on_grid(q) -> bool:
    qu = O.unit_quantum(q._unit)
    return qu is None or (O.F(q._amount) / qu).denominator == 1


def run(job):
    from quantity import Quantity
    from quantity.money import Money
    from quantity.predefined import (BIT, BYTE, KILOBIT, KIBIBYTE, MEGABYTE,
                                     DataVolume, SECOND, DataThroughput,
                                     KILOBIT_PER_SECOND, BYTE_PER_SECOND,
                                     KILOHERTZ, HERTZ)
    quick = job.tier != "thorough"
    EUR = Money.register_currency("EUR")
    JPY = Money.register_currency("JPY")
    BHD = Money.register_currency("BHD")
    XC = Money.new_unit(W.uid("XC"), "nickel", smallest_fraction="0.05")
    c1, u1 = W.linear_type([Decimal(8), Fraction(1, 3), Fraction(7, 3)],
                           quantum=Fraction(1, 3))
    c2, u2 = W.linear_type([Decimal(10)], quantum=Decimal("0.25"))
    c3, u3 = W.linear_type([Decimal(50)], quantum=25)
    groups = [[BYTE, BIT, KILOBIT, KIBIBYTE], u1, u2, u3, [EUR], [JPY], [BHD],
              [XC]]
    amounts = (W.amounts_grid(job.extra) if not quick else
               W.amounts_grid()[2:4] + W.amounts_grid()[8:10] +
               list(job.extra)[:4]) + [Decimal("2.675"), 2.675, 0.0005,
                                      Decimal("1.03"), Decimal("0.3"), 30,
                                      Fraction(1, 16), Decimal("0.125")]
    modes = O.MODES if not quick else ["ROUND_HALF_EVEN", "ROUND_CEILING",
                                       "ROUND_HALF_DOWN"]
    if quick and job.seed:
        modes = [O.MODES[(job.seed + i * 3) % 8] for i in range(3)]
    job.bound = (f"{sum(len(g) for g in groups)} units of quantized types x "
                 f"{len(amounts)} amounts x {len(modes)} default modes x "
                 f"constructor/arith/convert/scalar ops")
    for mode in modes:
        W.set_mode(mode)
        for g in groups:
            for u in g:
                if not job.mine():
                    continue
                for a in amounts:
                    exact = O.F(a)
                    exp = O.q_round(exact, u, mode)
                    for how, mk in (("unit-mul", lambda: a * u),
                                    ("ctor", lambda: u.qty_cls(a, u)),
                                    ("generic", lambda: Quantity(a, u))):
                        try:
                            q = mk()
                        except TypeError as e:
                            if isinstance(a, float) or how != "unit-mul":
                                job.case(f"new/{how}", (repr(a), u.symbol, mode),
                                         False, repr(e), repr(exp))
                            continue
                        job.case(f"new/{how}", (repr(a), u.symbol, mode),
                                 on_grid(q) and O.F(q.amount) == exp and
                                 O.is_exact(q.amount), repr(q), repr(exp))
                    q = a * u
                    for k in ((3, Decimal("0.33"), Fraction(2, 7)) if not quick
                              else (Decimal("0.33"),)):
                        r = q * k
                        e2 = O.q_round(O.F(q.amount) * O.F(k), u, mode)
                        job.case("mul/scalar", (repr(q), repr(k), mode),
                                 on_grid(r) and O.F(r.amount) == e2, repr(r), repr(e2))
                        r = q / k
                        e2 = O.q_round(O.F(q.amount) / O.F(k), u, mode)
                        job.case("div/scalar", (repr(q), repr(k), mode),
                                 on_grid(r) and O.F(r.amount) == e2, repr(r), repr(e2))
                    for ub in (g if not quick else g[:2]):
                        r = q.convert(ub)
                        e2 = O.q_round(O.F(q.amount) * O.chain_scale(u) /
                                       O.chain_scale(ub), ub, mode)
                        job.case("convert", (repr(q), ub.symbol, mode),
                                 on_grid(r) and O.F(r.amount) == e2, repr(r), repr(e2))
                        for b in (amounts[1:6] if not quick else amounts[1:3]):
                            y = b * ub
                            for name, op, sgn in (("add", operator.add, 1),
                                                  ("sub", operator.sub, -1)):
                                r = op(q, y)
                                e2 = O.q_round(O.F(q.amount) + sgn * O.F(y.amount) *
                                               O.chain_scale(ub) / O.chain_scale(u),
                                               u, mode)
                                job.case(name, (repr(q), repr(y), mode),
                                         on_grid(r) and O.F(r.amount) == e2,
                                         repr(r), repr(e2))
        if job.shard:
            continue
        # derived quantized result: DataVolume = DataThroughput * Duration
        for x, y in ((3000 * KILOBIT_PER_SECOND, Decimal("0.001") * SECOND),
                     (Fraction(1, 3) * BYTE_PER_SECOND, 7 * SECOND)):
            r = x * y
            e2 = O.q_round(O.refval(x) * O.refval(y) / O.chain_scale(r.unit),
                           r.unit, mode)
            job.case("mul/derived-quantized", (repr(x), repr(y), mode),
                     on_grid(r) and O.F(r.amount) == e2, repr(r), repr(e2))
        for x, y in ((3000 * (BIT / SECOND if False else KILOBIT_PER_SECOND), 1 * KILOHERTZ),
                     (7 * BYTE_PER_SECOND, 3 * HERTZ)):
            r = x / y
            e2 = O.q_round(O.refval(x) / O.refval(y) / O.chain_scale(r.unit),
                           r.unit, mode)
            job.case("div/derived-quantized", (repr(x), repr(y), mode),
                     on_grid(r) and O.F(r.amount) == e2, repr(r), repr(e2))
    # money of different currencies with a registered converter: the sum /
    # difference is the exact a +- b * rate rounded once (not the rounded
    # converted amount added and rounded again)
    from quantity.money import MoneyConverter
    USD = Money.register_currency("USD")
    conv = MoneyConverter(EUR)
    conv.update(None, [(USD, Decimal("1.25"), 1), (JPY, Decimal("131.5"), 1),
                       (BHD, Decimal("0.41"), 1)])
    # only pairs whose rate and inverse rate are exact at six digits
    GBP = Money.register_currency("GBP")
    conv.update(None, [(GBP, Decimal("0.8"), 1)])
    rate = {(EUR, USD): Fraction(5, 4), (USD, EUR): Fraction(4, 5),
            (EUR, GBP): Fraction(4, 5), (GBP, EUR): Fraction(5, 4)}
    cents = [Decimal(k) / 100 for k in (1, 2, 3, 5, 6, 7, 100, 1000, -3, 33)]
    with conv:
        for mode in O.MODES:
            W.set_mode(mode)
            for (cu, co), rt in rate.items():
                if not job.mine():
                    continue
                for a in cents:
                    for b in cents:
                        x, y = Money(a, cu), Money(b, co)
                        for name, op, sgn in (("add", operator.add, 1),
                                              ("sub", operator.sub, -1)):
                            r = op(x, y)
                            # y converted to cu: b / rate(cu -> co)
                            e2 = O.q_round(O.F(x.amount) + sgn * O.F(y.amount) / rt,
                                           cu, mode)
                            job.case(f"money-converter/{name}",
                                     (repr(x), repr(y), mode),
                                     r.unit is cu and O.F(r.amount) == e2,
                                     repr(r), repr(e2))
    W.set_mode("ROUND_HALF_EVEN")
