"""C16 shares the declaration-history stand-in with C15."""
from .standins_c15 import run, SHARDS  # noqa
