"""C10 shares the stand-in with C09."""
from .standins_c09 import run, SHARDS  # noqa
