"""Bounded stand-in for C15 / C16: seeded declaration histories (valid and
invalid steps at every position) run on the real code; the directory
invariant is evaluated after every step and a full snapshot of all
directories is compared around every rejected step."""
import itertools
from fractions import Fraction

from decimalfp import Decimal

from . import oracle as O
from . import world as W

SHARDS = 8


def all_classes():
    import quantity
    from quantity import Quantity, QuantityMeta
    seen, todo = [], [Quantity]
    while todo:
        c = todo.pop()
        if c in seen:
            continue
        seen.append(c)
        todo.extend(c.__subclasses__())
    return [c for c in seen if isinstance(c, QuantityMeta)]


def live_classes():
    """classes that completed their declaration"""
    return [c for c in all_classes() if "_converters" in c.__dict__]


def snapshot():
    import quantity
    from quantity import QuantityMeta
    tm = quantity._TERM_UNIT_MAP
    tr = QuantityMeta._registry
    return dict(
        symbols=dict(quantity._SYMBOL_UNIT_MAP),
        unit_maps={c: dict(c._unit_map) for c in live_classes()},
        term_keys={k: v for k, v in tm._item_def_map.items()},
        term_buckets=[list(b) for b in tm._item_list],
        type_keys={k: v for k, v in tr._item_def_map.items()},
        type_buckets=[list(b) for b in tr._item_list],
    )


def same_snapshot(a, b):
    if a["symbols"].keys() != b["symbols"].keys() or \
            any(a["symbols"][k] is not b["symbols"][k] for k in a["symbols"]):
        return "symbol directory changed"
    for c, m in a["unit_maps"].items():
        m2 = b["unit_maps"].get(c)
        if m2 is None or m.keys() != m2.keys() or \
                any(m[k] is not m2[k] for k in m):
            return f"units of {c.__name__} changed"
    if set(b["unit_maps"]) - set(a["unit_maps"]):
        return "a new type is listed"
    if len(a["term_buckets"]) != len(b["term_buckets"]) or any(
            len(x) != len(y) or any(i is not j for i, j in zip(x, y))
            for x, y in zip(a["term_buckets"], b["term_buckets"])):
        return "term directory changed"
    if len(a["term_keys"]) != len(b["term_keys"]):
        return "term directory keys changed"
    if len(a["type_buckets"]) != len(b["type_buckets"]) or \
            len(a["type_keys"]) != len(b["type_keys"]):
        return "type registry changed"
    return None


def check_dirinv(job, where):
    import quantity
    from quantity import Quantity, Unit
    classes = live_classes()
    ok = True
    why = ""
    for sym, u in quantity._SYMBOL_UNIT_MAP.items():
        listed = [c for c in classes if sym in c._unit_map]
        good = (u.symbol == sym and Unit(sym) is u and listed == [u.qty_cls]
                and u.qty_cls._unit_map[sym] is u)
        if good and u.qty_cls.ref_unit is not None:
            good = u._equiv is not None and O.F(u._equiv) == O.chain_scale(u)
            rn, rv = O.den(u.qty_cls.ref_unit)
            good = good and O.den(u)[1] == rv and rn == 1
        if good:
            q = Quantity(1, u)
            good = type(q) is u.qty_cls
            if " " not in sym:
                good = good and type(Quantity("1 " + sym)) is u.qty_cls
        if not good:
            ok = False
            why = f"unit {sym!r} of {u.qty_cls.__name__} listed by " \
                  f"{[c.__name__ for c in listed]}"
            break
    if ok:
        for c in classes:
            for sym, u in c._unit_map.items():
                if quantity._SYMBOL_UNIT_MAP.get(sym) is not u or \
                        u.qty_cls is not c:
                    ok = False
                    why = f"{c.__name__} lists foreign unit {sym!r}"
    job.case("dirinv", where, ok, why, "coherent directories")


def run(job):
    import quantity
    from quantity import (Quantity, QuantityMeta, Unit, QuantityError)
    from quantity.term import Term
    import quantity.predefined as P
    from quantity.money import Money, MoneyConverter, Currency
    quick = job.tier != "thorough"
    rng = job.rng
    rng.seed(job.seed * 1000 + job.shard)
    n_hist = 10 if quick else 60
    job.bound = (f"{n_hist} seeded histories per shard x {SHARDS} shards of "
                 f"8..14 declaration steps with invalid steps of 17 kinds "
                 f"interleaved; invariant after every step, snapshot "
                 f"comparison around every rejected step")
    for hno in range(n_hist):
        tag = W.uid(f"h{job.shard}x")
        types, units = [], []

        def new_base(i):
            kw = {}
            if rng.random() < 0.8:
                kw["ref_unit_symbol"] = f"{tag}b{i}"
                if rng.random() < 0.3:
                    kw["quantum"] = rng.choice([Fraction(1, 4), Decimal("0.01")])
            c = QuantityMeta(f"{tag}B{i}", (Quantity,), {}, **kw)
            types.append(c)
            units.extend(c.units())
            return c

        def new_derived(i):
            lin = [t for t in types if t.ref_unit is not None]
            if len(lin) < 2:
                return new_base(i)
            a, b = rng.sample(lin, 2)
            d = rng.choice([a * b, a / b, a ** 2 * b, a / b ** 2, a ** -1 * b ** 3])
            kw = {}
            if rng.random() < 0.5:
                kw["ref_unit_symbol"] = f"{tag}d{i}"
            snap = snapshot()
            try:
                c = QuantityMeta(f"{tag}D{i}", (Quantity,), {}, define_as=d,
                                 **kw)
            except ValueError:
                # the dimension happens to be taken already: a rejected step
                diff = same_snapshot(snap, snapshot())
                job.case("rejected/no-trace", ("dup-dimension", str(d)),
                         diff is None, diff, "directories unchanged")
                return None
            types.append(c)
            units.extend(c.units())
            return c

        def scaled_unit(i):
            lin = [u for u in units if u.qty_cls.ref_unit is not None and
                   u.qty_cls._quantum is None]
            if not lin:
                return new_base(i)
            p = rng.choice(lin)
            k = rng.choice([Decimal(1000), Fraction(7, 3), Decimal("0.0254"), 12])
            u = p.qty_cls.new_unit(f"{tag}s{i}", define_as=k * p)
            units.append(u)
            job.case("scale/declared-multiple", (repr(k), p.symbol),
                     O.F(u._equiv) == O.F(k) * O.chain_scale(p) and
                     O.F((1 * u).convert(p.qty_cls.ref_unit).amount) ==
                     O.F(k) * O.chain_scale(p), repr(u._equiv), "k * scale(p)")
            return u

        def term_unit(i):
            der = [t for t in types if t.definition and t._definition is not None
                   and t.ref_unit is not None]
            if not der:
                return scaled_unit(i)
            c = rng.choice(der)
            items = []
            for bc, e in c._definition:
                cand = [u for u in bc.units()]
                items.append((rng.choice(cand), e))
            form = rng.random()
            if form < 0.5:
                u = c.derive_unit_from(*[x for x, _ in items],
                                       symbol=f"{tag}t{i}")
            else:
                u = c.new_unit(f"{tag}t{i}",
                               define_as=Term(items + [(Decimal(3), 1)]))
            units.append(u)
            exp = Fraction(1 if form < 0.5 else 3)
            for x, e in items:
                exp *= O.chain_scale(x) ** e
            job.case("scale/term-defined", u.symbol,
                     O.F(u._equiv) == exp, repr(u._equiv), repr(exp))
            return u

        def invalid(i):
            kind = rng.randrange(18)
            lin = [t for t in types if t.ref_unit is not None]
            snap = snapshot()
            sym = f"{tag}x{i}"
            exp = (ValueError, TypeError, AssertionError)
            try:
                if kind == 0 and lin:          # duplicate dimension
                    t = rng.choice(lin)
                    QuantityMeta(f"{tag}X{i}", (Quantity,), {},
                                 define_as=t.definition, ref_unit_symbol=sym)
                elif kind == 1 and lin:        # duplicate dimension, no symbol
                    t = rng.choice(lin)
                    QuantityMeta(f"{tag}X{i}", (Quantity,), {},
                                 define_as=t.definition ** 1)
                elif kind == 2 and units:      # new dimension, symbol taken
                    a = rng.choice(lin) if lin else P.Length
                    QuantityMeta(f"{tag}X{i}", (Quantity,), {},
                                 define_as=a ** 7,
                                 ref_unit_symbol=rng.choice(units).symbol)
                elif kind == 3 and units:      # duplicate symbol, same type
                    u = rng.choice(units)
                    u.qty_cls.new_unit(u.symbol)
                elif kind == 4 and units and len(types) > 1:   # other type
                    u = rng.choice(units)
                    t = rng.choice([t for t in types if t is not u.qty_cls])
                    t.new_unit(u.symbol, define_as=None if t.ref_unit is None
                               else 3 * t.ref_unit)
                elif kind == 5 and types:
                    rng.choice(types).new_unit("")
                elif kind == 6 and types:
                    rng.choice(types).new_unit(17)
                elif kind == 7 and len(lin) > 1:   # quantity of another type
                    a, b = rng.sample(lin, 2)
                    a.new_unit(sym, define_as=2 * b.ref_unit)
                elif kind == 8 and len(lin) > 1:   # term of another dimension
                    a, b = rng.sample(lin, 2)
                    a.new_unit(sym, define_as=Term(((b.ref_unit, 1),
                                                    (Decimal(2), 1))))
                elif kind == 9 and lin:            # cancelling / numeric term
                    a = rng.choice(lin)
                    a.new_unit(sym, define_as=Term(((a.ref_unit, 1),
                                                    (a.ref_unit, -1),
                                                    (Decimal(5), 1))))
                elif kind == 10 and types:
                    rng.choice(types).new_unit(sym, define_as=5)
                elif kind == 11 and types:         # derive on base / wrong args
                    t = rng.choice(types)
                    if t._definition is None:
                        t.derive_unit_from(P.METRE, symbol=sym)
                    else:
                        t.derive_unit_from(P.METRE, P.METRE, P.METRE, P.METRE,
                                           symbol=sym)
                elif kind == 12:
                    Money.new_unit(sym, "x", minor_unit=-1)
                elif kind == 13:
                    Money.new_unit(sym, "x", smallest_fraction="0.3")
                elif kind == 14:
                    Money.register_currency("Q" + sym[:2])
                elif kind == 15:
                    Money.new_unit(sym, "x", minor_unit=2,
                                   smallest_fraction="0.001")
                elif kind == 16 and len(lin) > 1:
                    # new dimension, no symbol given, and the symbol generated
                    # from the definition is already used by an unrelated type
                    a, b = rng.sample(lin, 2)
                    e = 5 + i % 3
                    gen = str(Term(((a.ref_unit, e),)))
                    try:
                        Unit(gen)
                    except ValueError:
                        if b._quantum is None:
                            units.append(b.new_unit(
                                gen, define_as=Decimal(3) * b.ref_unit))
                        else:
                            return
                    try:            # dimension taken by an earlier valid step?
                        QuantityMeta._registry[a ** e]
                        dim_taken = True
                    except KeyError:
                        dim_taken = False
                    snap = snapshot()
                    sym = gen
                    QuantityMeta(f"{tag}X{i}", (Quantity,), {}, define_as=a ** e)
                elif kind == 17 and lin:
                    # quantity of a *subclassed* type (a base type of its own,
                    # with its own reference unit) as definition: it is an
                    # instance of the parent class, but denotes another dimension
                    base_t = [t for t in lin if t._definition is None
                              and t._quantum is None]
                    if not base_t:
                        return
                    a = rng.choice(base_t)
                    sub = QuantityMeta(f"{tag}S{i}", (a,), {},
                                       ref_unit_symbol=f"{tag}s{i}")
                    types.append(sub)
                    units.append(sub.ref_unit)
                    snap = snapshot()
                    a.new_unit(sym, define_as=5 * sub.ref_unit)
                else:
                    return
                job.case("rejected/raises", (kind, sym), False, "accepted",
                         "an exception")
            except exp:
                pass
            diff = same_snapshot(snap, snapshot())
            job.case("rejected/no-trace", (kind, sym), diff is None, diff,
                     "directories unchanged")
            for s in (() if kind == 16 else (sym,)):
                try:
                    Unit(s)
                    job.case("rejected/symbol-unknown", (kind, s), False,
                             "registered", "ValueError")
                except ValueError:
                    job.case("rejected/symbol-unknown", (kind, s), True)
                try:
                    r = Quantity("1 " + s)
                    job.case("rejected/parse", (kind, s), False, repr(r),
                             "QuantityError")
                except QuantityError:
                    job.case("rejected/parse", (kind, s), True)
            # the symbol stays available for a later valid declaration
            if kind in (0, 7, 8, 9, 10) and lin:
                t = rng.choice(lin)
                if t._quantum is None:
                    u = t.new_unit(sym, define_as=Decimal(2) * t.ref_unit)
                    units.append(u)
                    job.case("rejected/symbol-available", (kind, sym),
                             Unit(sym) is u, "", "")
            if kind == 16 and len(lin) > 1 and not dim_taken:
                # the dimension stays available under a free symbol
                try:
                    c = QuantityMeta(f"{tag}Z{i}", (Quantity,), {},
                                     define_as=a ** e,
                                     ref_unit_symbol=f"{tag}z{i}")
                    types.append(c)
                    units.extend(c.units())
                    job.case("rejected/dimension-available", (kind, sym), True)
                except ValueError as ex:
                    job.case("rejected/dimension-available", (kind, sym), False,
                             repr(ex), "accepted")
            if kind == 2:
                a = rng.choice(lin) if lin else P.Length
                try:
                    c = QuantityMeta(f"{tag}Y{i}", (Quantity,), {},
                                     define_as=a ** 7, ref_unit_symbol=sym)
                    types.append(c)
                    units.extend(c.units())
                    job.case("rejected/dimension-available", (kind, sym), True)
                except ValueError as e:
                    # dimension may have been taken by an earlier valid step
                    pass

        steps = [new_base, new_base, new_derived, scaled_unit, term_unit,
                 invalid, invalid, scaled_unit, new_derived, invalid,
                 term_unit, invalid]
        n = rng.randint(8, 14)
        new_base(0)
        new_base(1)
        for i in range(2, n):
            st = rng.choice(steps)
            st(i)
            check_dirinv(job, (hno, i, st.__name__))
        # derived reference units are the product of the base reference units
        for c in types:
            if c._definition is not None and c.ref_unit is not None:
                n_, v = O.den(c.ref_unit)
                exp = {}
                for bc, e in c._definition.normalized():
                    if isinstance(bc, QuantityMeta):
                        exp[bc.ref_unit.symbol] = e
                job.case("ref-unit/product-of-base-ref-units", c.__name__,
                         n_ == 1 and v == exp, (n_, v), exp)
    if job.shard == 1:
        money_converter_updates(job)
    if job.shard == 0:
        # base class lists nothing; directory queries
        job.case("base-class/no-units", "", len(Quantity) == 0 and
                 Quantity.units() == () and "m" not in Quantity, "", "")
        for c in (P.Length, P.Mass, P.Temperature, P.DataVolume):
            us = c.units()
            job.case("queries/consistent", c.__name__,
                     len(c) == len(us) and list(c) == [u.symbol for u in us]
                     and all(u.symbol in c and c.get_unit_by_symbol(u.symbol) is u
                             and Unit(u.symbol) is u for u in us), "", "")


def money_converter_updates(job):
    """rejected MoneyConverter.update calls leave the converter unchanged"""
    import datetime
    from quantity.money import Money, MoneyConverter
    EUR = Money.register_currency("EUR")
    USD = Money.register_currency("USD")
    HKD = Money.register_currency("HKD")
    JPY = Money.register_currency("JPY")
    good = [(USD, Decimal("1.1"), 1), (HKD, 8, 1)]
    bad_specs = [
        [(HKD, 8, 1), (EUR, 1, 1), (JPY, 3, 1)],          # identical currencies
        [(USD, Decimal("1.2"), 1), (HKD, 0, 1)],           # zero amount
        [(USD, Decimal("1.2"), 1), (JPY, 130, Decimal("0.5"))],  # bad multiple
        [(USD, "abc", 1)],
        [(USD, Decimal("0.0000001"), 1)],
    ]
    validities = [None, 2020, (2020, 8), "2020-08", "2020-08-15",
                  datetime.date(2020, 8, 15), ("2020", "8")]
    bad_validities = ["2020-13", (2020, 13), "20-20-20-20", "x", (2020, 0),
                      "2020-02-30", 0, 10000, 3.5]
    for v0 in validities:
        for first in (False, True):
            conv = MoneyConverter(EUR)
            if not first:
                conv.update(v0, good)
            before = (dict(conv._rate_dict), conv._type_of_validity)
            attempts = [(v0, b) for b in bad_specs] + \
                [(bv, good) for bv in bad_validities]
            if not first:
                other = [v for v in validities if type(v) is not type(v0) and
                         not (isinstance(v, str) or isinstance(v0, str))]
                attempts += [(v, good) for v in other[:2]]
            for v, specs in attempts:
                try:
                    conv.update(v, specs)
                    ok = False
                    obs = "accepted"
                except Exception as e:      # any rejection
                    after = (dict(conv._rate_dict), conv._type_of_validity)
                    ok = after == before and all(
                        after[0][k] is before[0][k] for k in before[0])
                    obs = type(e).__name__
                job.case("rejected-update/no-trace", (repr(v0), first, repr(v),
                                                      repr(specs)[:80]),
                         ok, obs, "converter unchanged")
            # a later valid update still works and has the expected effect
            conv.update(v0, [(JPY, 130, 1)])
            job.case("rejected-update/later-valid", (repr(v0), first),
                     conv.get_rate(EUR, JPY, datetime.date(2020, 8, 15)) is not None,
                     "", "")
