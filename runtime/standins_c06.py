"""Bounded stand-in for C06 (Quantity.allocate) on the real code: quantized and
non-quantized types, every default rounding mode, ratio lists of numbers of
every kind and of quantities (also in mixed units), with and without dispersal
of the rounding error; against exact Fraction shares."""
import itertools
from fractions import Fraction

from decimalfp import Decimal

from . import oracle as O
from . import world as W

SHARDS = 12

HALF = ("ROUND_HALF_UP", "ROUND_HALF_DOWN", "ROUND_HALF_EVEN")


def ratio_lists(job, quick, mass_units):
    """deterministic corner lists + random lists of every kind"""
    rng = job.rng
    out = [[1], [5], [1, 1], [1, 1, 1], [3, 2, 1], [1] * 6, [1] * 7,
           [3, 7, 5, 6, 81, 3, 7], [3, 7, 5, 6, 87, 3, 7], [1, 2], [2, 1, 1, 1],
           [Fraction(1, 4), Fraction(1, 8), Fraction(1, 8), Fraction(1, 2)],
           [Decimal("0.5"), Decimal("0.25"), Decimal("0.25")],
           [Fraction(1, 3), Fraction(1, 3), Fraction(1, 3)],
           [1, Decimal("0.5"), Fraction(1, 7)], [1, 10 ** 6], [1, 1, 1, 1],
           [7, 11, 13, 17, 19], [1] * 9, [2] * 12]
    kg, g = mass_units
    out += [[24 * kg, 69 * kg, 5 * kg], [1 * kg, 500 * g, 250 * g, 250 * g],
            [Decimal("0.3") * g, Fraction(1, 3) * g], [1 * kg, 1 * g, 1 * g]]
    n_rand = 40 if quick else 600
    for _ in range(n_rand):
        n = rng.randint(1, 8 if quick else 12)
        kind = rng.choice(["int", "dec", "frac", "mixed", "qty"])
        lst = []
        for _ in range(n):
            k = kind if kind != "mixed" else rng.choice(["int", "dec", "frac"])
            if k == "int":
                lst.append(rng.randint(1, 97))
            elif k == "dec":
                lst.append(Decimal(rng.randint(1, 9999)) / 10 ** rng.randint(0, 4))
            elif k == "frac":
                lst.append(Fraction(rng.randint(1, 50), rng.randint(1, 50)))
            else:
                lst.append(rng.choice([rng.randint(1, 50),
                                       Decimal(rng.randint(1, 999)) / 10]) *
                           rng.choice([kg, g]))
        out.append(lst)
    return out


def ratio_value(r):
    """ratio as an exact number (quantities: in the reference unit)"""
    if hasattr(r, "_unit"):
        return O.refval(r)
    return O.F(r)


def run(job):
    from quantity import Quantity
    from quantity.money import Money
    from quantity.predefined import (BYTE, GRAM, KILOBYTE, KILOGRAM, METRE,
                                     BIT)
    quick = job.tier != "thorough"
    rng = job.rng
    rng.seed(job.seed * 104729 + 5)
    qcls, qunits = W.linear_type([Decimal(1000), Decimal("0.01")],
                                 quantum=Decimal("0.01"))
    fcls, funits = W.linear_type([Decimal(8)], quantum=Fraction(1, 4))
    eur, jpy, bhd = (Money.register_currency(c) for c in ("EUR", "JPY", "BHD"))
    quantized_units = [qunits[0], qunits[1], qunits[2], funits[0], funits[1],
                       eur, jpy, bhd, BYTE, KILOBYTE, BIT]
    plain_units = [KILOGRAM, GRAM, METRE]
    if quick:
        quantized_units = [qunits[0], qunits[1], qunits[2], funits[1], eur, jpy,
                           bhd, BYTE, BIT]
        plain_units = [GRAM]
    amounts = [Decimal(10), Decimal(-10), Decimal(1), Decimal("-1"), 0,
               Decimal("0.03"), Decimal("100.01"), Fraction(1, 3), Fraction(-22, 7),
               7, Decimal("12345.67"), Decimal("-0.05"), Decimal("0.01")]
    if not quick:
        amounts += [Decimal(rng.randint(-10 ** 6, 10 ** 6)) / 100 for _ in range(10)]
        amounts += [Fraction(rng.randint(-999, 999), rng.randint(1, 99))
                    for _ in range(6)]
    amounts += [x for x in job.extra][:6]
    rlists = ratio_lists(job, quick, (KILOGRAM, GRAM))
    job.bound = (f"{len(quantized_units)} quantized + {len(plain_units)} plain "
                 f"units x a seeded sample of {195 if quick else 1545} of {len(amounts)} amounts x {len(rlists)} ratio lists "
                 f"(length 1..{max(len(r) for r in rlists)}; int, Decimal, "
                 f"Fraction, mixed, quantities in mixed units) x disperse "
                 f"on/off x 8 default rounding modes")
    for unit in quantized_units + plain_units:
        quantum = O.unit_quantum(unit)
        for mode in O.MODES:
            if quantum is None and mode != "ROUND_HALF_EVEN" and quick:
                continue
            W.set_mode(mode)
            work = list(itertools.product(amounts, rlists))
            # corner lists for +-10, 1 and 0.03, and a seeded sample of the rest
            work = [(a, r) for a in amounts[:4] + amounts[5:6]
                    for r in rlists[:9]] + \
                rng.sample(work, 150 if quick else 1500)
            for amount, ratios in work:
                if not job.mine():
                    continue
                for disperse in (True, False):
                    one(job, unit, quantum, mode, amount, ratios, disperse)
    W.set_mode("ROUND_HALF_EVEN")


def one(job, unit, quantum, mode, amount, ratios, disperse):
    q = amount * unit
    before = (q._amount, O.F(q._amount), q._unit)
    inp = (repr(q), [repr(r) for r in ratios], disperse, mode)
    try:
        portions, rem = q.allocate(list(ratios), disperse)
    except Exception as e:
        job.case("allocate/returns", inp, False, repr(e), "portions, remainder")
        return
    n = len(ratios)
    vals = [ratio_value(r) for r in ratios]
    total = sum(vals)
    A = O.F(q._amount)
    job.case("allocate/receiver-unchanged", inp,
             q._amount is before[0] and O.F(q._amount) == before[1] and
             q._unit is before[2], (q._amount, q._unit), before)
    shape = (isinstance(portions, list) and len(portions) == n and
             all(type(p) is type(q) and p._unit is q._unit for p in portions)
             and type(rem) is type(q) and rem._unit is q._unit)
    job.case("allocate/own-type-and-unit", inp, shape, repr((portions, rem)), "")
    if not shape:
        return
    exact_kind = all(O.is_exact(p._amount) for p in portions) and \
        O.is_exact(rem._amount)
    job.case("allocate/exact-amounts", inp, exact_kind, repr((portions, rem)), "")
    P = [O.F(p._amount) for p in portions]
    R = O.F(rem._amount)
    job.case("allocate/conservation", inp, sum(P) + R == A,
             (P, R), f"sum + remainder == {A}")
    shares = [A * v / total for v in vals]
    if quantum is None:
        job.case("allocate/exact-shares-without-quantum", inp,
                 P == shares and R == 0, (P, R), shares)
        return
    job.case("allocate/multiples-of-quantum", inp,
             all(p % quantum == 0 for p in P) and R % quantum == 0, P, quantum)
    job.case("allocate/less-than-one-quantum-from-share", inp,
             all(abs(p - s) < quantum for p, s in zip(P, shares)),
             [str(p - s) for p, s in zip(P, shares)], f"< {quantum}")
    if disperse:
        job.case("allocate/dispersed-remainder-zero", inp, R == 0, R, 0)
    elif mode in HALF:
        job.case("allocate/remainder-bound", inp, abs(R) * 2 <= n * quantum, R,
                 f"<= {n} * {quantum} / 2")
    else:
        job.case("allocate/remainder-bound", inp, abs(R) < n * quantum, R,
                 f"< {n} * {quantum}")
