"""Entry point of the bounded stand-ins / replay (one JSON job on stdin, one
JSON line on stdout).  Runs under /venv/bin/python with
DECIMALFP_FORCE_PYTHON_IMPL=1 and PYTHONPATH=<repo>/src."""
from __future__ import annotations

import importlib
import json
import os
import random
import re
import sys
import traceback
from fractions import Fraction


def parse_numbers(hints) -> list:
    """rational values occurring in solver counter-models -> extra seeds"""
    out = []
    for h in hints or []:
        for v in (h.get("model") or {}).values():
            for m in re.finditer(r"-?\d+(?:/\d+)?", str(v)):
                try:
                    f = Fraction(m.group(0))
                except (ValueError, ZeroDivisionError):
                    continue
                if abs(f) < 10 ** 9 and f not in out:
                    out.append(f)
    return out[:24]


class Job:
    def __init__(self, spec):
        self.name = spec["name"]
        self.tier = spec.get("tier", "quick")
        self.seed = spec.get("seed", 0)
        self.hints = spec.get("hints", [])
        self.rng = random.Random(self.seed)
        self.extra = parse_numbers(self.hints)
        self.cases = 0
        self.keys = set()
        self.failures = []
        self.samples = []
        self.bound = ""
        self.shard = spec.get("shard", 0)
        self.nshards = spec.get("nshards", 1)
        self._turn = 0

    def mine(self) -> bool:
        """round-robin work split between the shard processes (call once per
        coarse work item)"""
        self._turn += 1
        return self._turn % self.nshards == self.shard

    def case(self, check: str, inp, ok: bool, observed=None, expected=None,
             signature=None):
        self.cases += 1
        key = (check, repr(inp))
        self.keys.add(key)
        if len(self.samples) < 4 and self.cases % 37 == 1:
            self.samples.append(dict(check=check, input=repr(inp)[:200],
                                     observed=repr(observed)[:120]))
        if not ok:
            k2 = (check, signature or check)
            self._per_key = getattr(self, "_per_key", {})
            self._per_key[k2] = self._per_key.get(k2, 0) + 1
        if not ok and self._per_key[k2] <= 3 and len(self.failures) < 40:
            self.failures.append(dict(check=check, input=repr(inp)[:400],
                                      observed=repr(observed)[:300],
                                      expected=repr(expected)[:300],
                                      signature=signature or check))

    def result(self):
        return dict(cases=self.cases, distinct=len(self.keys),
                    failures=self.failures, samples=self.samples,
                    bound=self.bound)


def main():
    spec = json.loads(sys.stdin.read())
    import quantity
    src = os.path.realpath(os.path.dirname(os.path.dirname(quantity.__file__)))
    want = os.path.realpath(os.environ.get("PYTHONPATH", "").split(os.pathsep)[0])
    if src != want:
        print(json.dumps(dict(error=f"binding check: quantity imported from "
                                    f"{src}, expected {want}")))
        return
    mod = importlib.import_module("runtime.standins_" + spec["name"].lower())
    n = int(spec.get("nshards") or getattr(mod, "SHARDS", 8))
    if spec.get("tier") == "replay":
        n = 1
    if n <= 1:
        print(json.dumps(run_shard(spec["name"], spec, 0, 1)))
        return
    import multiprocessing as mp
    with mp.get_context("fork").Pool(n) as pool:
        parts = pool.starmap(run_shard, [(spec["name"], spec, i, n) for i in range(n)])
    out = dict(cases=0, distinct=0, failures=[], samples=[], bound="")
    for p in parts:
        if p.get("error"):
            print(json.dumps(p))
            return
        out["cases"] += p["cases"]
        out["distinct"] += p["distinct"]
        out["failures"] += p["failures"]
        out["samples"] = (out["samples"] + p["samples"])[:6]
        out["bound"] = p["bound"] or out["bound"]
    out["failures"] = out["failures"][:120]
    print(json.dumps(out))


def memoize_dependency():
    """decimalfp's pure-Python fallback spends 20 ms in the pure function
    _approx_rational(num, den, min_prec) for every non-terminating quotient
    (it tries precisions up to the maximum before giving up).  The stand-in
    processes (a) memoise it and (b) let _div return Fraction(num, den) at
    once when the reduced denominator has a prime factor other than 2 and 5,
    which is exactly the case in which the original loop ends with a
    remainder; every 64th shortcut is cross-checked against the original.
    Recorded as an assumption of the stand-ins (A6)."""
    import functools
    from fractions import Fraction
    from math import gcd
    try:
        import decimalfp._pydecimalfp as P
    except ImportError:
        return
    if hasattr(P._approx_rational, "cache_info"):
        return
    P._approx_rational = functools.lru_cache(maxsize=400000)(P._approx_rational)
    orig_div = P._div
    count = [0]

    def _div(num, den, min_prec):
        if den == 0 or num == 0:
            return orig_div(num, den, min_prec)
        d = abs(den) // gcd(num, den)
        while d % 2 == 0:
            d //= 2
        while d % 5 == 0:
            d //= 5
        if d == 1:
            return orig_div(num, den, min_prec)
        res = Fraction(num, den)
        count[0] += 1
        if count[0] % 64 == 1:
            ref = orig_div(num, den, min_prec)
            if type(ref) is not Fraction or ref != res:
                raise AssertionError(f"stand-in shortcut of decimalfp._div "
                                     f"differs for {num}/{den}")
        return res
    P._div = _div


def run_shard(name, spec, i, n):
    memoize_dependency()
    mod = importlib.import_module("runtime.standins_" + name.lower())
    job = Job(dict(spec, shard=i, nshards=n))
    try:
        mod.run(job)
    except Exception as e:
        # an exception raised by the library on an input for which the
        # stand-in expects a result is a failing input (the shard stops
        # there); an exception raised by the stand-in's own code is an
        # engine error
        tb = traceback.extract_tb(e.__traceback__)
        import quantity
        lib = os.path.realpath(os.path.dirname(quantity.__file__))
        if tb and os.path.realpath(tb[-1].filename).startswith(lib):
            mine = [f for f in tb if "/runtime/standins_" in f.filename]
            where = mine[-1] if mine else tb[0]
            frame = e.__traceback__
            loc = {}
            while frame is not None:
                if frame.tb_frame.f_code.co_filename == where.filename:
                    loc = frame.tb_frame.f_locals
                frame = frame.tb_next
            shown = {k: repr(v)[:80] for k, v in list(loc.items())[::-1][:25]
                     if not k.startswith("_") and k not in ("job", "rng")
                     and not callable(v)}
            job.case("unexpected-exception/" + os.path.basename(where.filename)
                     + f":{where.lineno}",
                     (where.line, shown), False, repr(e)[:300],
                     "no exception (the unchanged code returns a result here)",
                     signature=f"{type(e).__name__} at {where.lineno}")
            return job.result()
        return dict(error="stand-in raised: " + traceback.format_exc()[-1500:])
    return job.result()


if __name__ == "__main__":
    main()
