"""Bounded stand-in for C18: exact construction from every numeric kind and
the text round trip over every registered symbol (incl. non-ASCII, compound
and blank-containing ones) x an amount grid x both factories; malformed
strings."""
import decimal
import itertools
from fractions import Fraction

from decimalfp import Decimal

from . import oracle as O
from . import world as W

SHARDS = 8


def run(job):
    import quantity
    import quantity.predefined as P
    from quantity import Quantity, QuantityError, Unit, UnitConversionError, \
        IncompatibleUnitsError
    from quantity.money import Money
    quick = job.tier != "thorough"
    for code in ("EUR", "USD", "JPY", "BHD"):
        Money.register_currency(code)
    c2, u2 = W.linear_type([Fraction(7, 3)])
    blank = c2.new_unit("fl oz", "with blank", define_as=Decimal(3) * u2[0])
    cq, uq = W.linear_type([Decimal(8)], quantum=Decimal("0.25"))
    units = O.all_units()
    numbers = [0, 1, -17, 10 ** 30, Decimal("2.5"), Decimal("-0.000001"),
               Decimal("12345678901234567890.123456789"), Fraction(1, 3),
               Fraction(-22, 7), Fraction(10 ** 20 + 1, 10 ** 7), 0.1, 2.675,
               1e-7, 1.7976931348623157e308, 5e-324, -0.0, 1e21, 0.0005,
               decimal.Decimal("0.1"), decimal.Decimal("-3.25E+5"),
               decimal.Decimal("1E-30")]
    # standard-library decimals with more significant digits than the context
    # precision (28): context-dependent operations on them would round
    long_std = [decimal.Decimal("100000000000000000000000000000000000001"),
                decimal.Decimal(0.1),
                decimal.Decimal("-1.0000000000000000000000000000000001")]
    job.bound = (f"{len(units)} registered units x {len(numbers) + len(long_std)} numbers of "
                 f"every accepted kind x 3 factories; text round trip; "
                 f"malformed strings")
    for u in units:
        if not job.mine():
            continue
        cls = u.qty_cls
        for x in ((numbers if not quick else numbers[::2] + numbers[1:4])
                  + long_std):
            exact = O.F(x)
            exp = O.q_round(exact, u)
            made = []
            for how, fn in (("ctor", lambda: cls(x, u)),
                            ("generic", lambda: Quantity(x, u)),
                            ("mul", lambda: x * u)):
                try:
                    q = fn()
                except TypeError as e:
                    if how == "mul" and isinstance(x, decimal.Decimal):
                        continue        # decimal.Decimal * Unit is not supported
                    job.case(f"construct/{how}", (repr(x), u.symbol), False,
                             repr(e), repr(exp))
                    continue
                made.append(q)
                job.case(f"construct/{how}", (repr(x), u.symbol),
                         type(q) is cls and q.unit is u and O.is_exact(q.amount)
                         and O.F(q.amount) == exp, repr(q.amount), repr(exp))
            if not made:
                continue
            q = made[0]
            s = str(q)
            job.case("text/str-is-amount-blank-symbol", (repr(x), u.symbol),
                     s == f"{q.amount} {u.symbol}" and format(q) == s and
                     format(q, "") == s, s, "")
            for how, fn in (("generic", lambda: Quantity(s)),
                            ("own-type", lambda: cls(s)),
                            ("padded", lambda: Quantity("  " + s + "  "))):
                try:
                    r = fn()
                    job.case(f"text/roundtrip-{how}", (s,),
                             type(r) is cls and r.unit is u and
                             O.F(r.amount) == O.F(q.amount), repr(r), s)
                except Exception as e:
                    job.case(f"text/roundtrip-{how}", (s,), False, repr(e), s)
            # explicit other unit == parse, then convert
            others = [v for v in cls.units() if v is not u][:2]
            for v in others:
                try:
                    a = Quantity(s, v)
                    b = Quantity(s).convert(v)
                    job.case("text/parse-with-unit", (s, v.symbol),
                             type(a) is cls and a.unit is v and
                             O.F(a.amount) == O.F(b.amount), repr(a), repr(b))
                except UnitConversionError:
                    try:
                        Quantity(s).convert(v)
                        job.case("text/parse-with-unit", (s, v.symbol), False,
                                 "UnitConversionError", "")
                    except UnitConversionError:
                        job.case("text/parse-with-unit", (s, v.symbol), True)
    if job.shard:
        return
    # numeric strings of every notation
    for txt, val in (("1.5", "3/2"), ("1e3", "1000"), ("-2.5E-3", "-1/400"),
                     ("7/3", "7/3"), (" 12 ", "12"), ("+4", "4"),
                     ("0.1", "1/10"), ("1_000", "1000"), ("3.", "3")):
        for mk in (lambda t: Quantity(t + " m"), lambda t: P.Length(t + " m"),
                   lambda t: Quantity(t, P.METRE), lambda t: P.Length(t)):
            try:
                q = mk(txt)
                job.case("text/numeric-string", (txt,),
                         O.F(q.amount) == Fraction(val) and q.unit is P.METRE,
                         repr(q), val)
            except QuantityError as e:
                job.case("text/numeric-string", (txt,), txt in ("1_000", " 12 ", "3."),
                         repr(e), val)
    malformed = ["", " ", "m", "abc m", "1/0 m", "1 xyz", "1 m 50 cm",
                 "3/4 kg net", "1,5 m", "1.5.2 m", "--1 m", "1e m", "1 ", "m 1",
                 "0x10 m", "1/2/3 m", "nan m", "inf m", "1 M", "5 l per day",
                 "١ m", "1\tm", "1  m"]
    for txt in malformed:
        for how, fn in (("generic", lambda: Quantity(txt)),
                        ("own-type", lambda: P.Length(txt)),
                        ("with-unit", lambda: Quantity(txt, P.KILOMETRE))):
            try:
                r = fn()
                # a bare number with the type's reference unit / given unit is
                # legitimate; so is surrounding white space around the symbol
                legit = (txt.strip() in ("1",) and how != "generic") or \
                    txt in ("1\tm", "1  m", "١ m")
                job.case(f"text/malformed-{how}", (txt,), legit, repr(r),
                         "QuantityError")
            except QuantityError:
                job.case(f"text/malformed-{how}", (txt,), True)
            except Exception as e:
                job.case(f"text/malformed-{how}", (txt,), False, repr(e),
                         "QuantityError")
    for bad in (None, [1], b"1 m", 1j, P.METRE, object()):
        try:
            Quantity(bad, P.METRE)
            job.case("construct/not-a-number", repr(bad), False, "", "TypeError")
        except TypeError:
            job.case("construct/not-a-number", repr(bad), True)
    try:
        Quantity(5)
        job.case("construct/no-unit", "", False, "", "QuantityError")
    except QuantityError:
        job.case("construct/no-unit", "", True)
    try:
        P.Mass(5, P.METRE)
        job.case("construct/unit-of-other-type", "", False, "", "QuantityError")
    except QuantityError:
        job.case("construct/unit-of-other-type", "", True)

    # a text of another type parsed through a type, with or without an explicit
    # unit: parsing-then-converting raises QuantityError, so does the one-step form
    for cls_, txt, tgt in ((P.Mass, "3000 mm", P.METRE), (P.Mass, "3000 mm", P.KILOMETRE),
                           (P.Length, "5 kg", P.GRAM), (P.Duration, "2 km", P.METRE),
                           (P.Mass, "3000 mm", P.KILOGRAM), (P.Length, "5 kg", P.METRE)):
        outcomes = []
        for fn in (lambda: cls_(txt, tgt), lambda: cls_(txt).convert(tgt)):
            try:
                outcomes.append(repr(fn()))
            except QuantityError:
                outcomes.append("QuantityError")
            except Exception as e:
                outcomes.append(repr(e))
        job.case("text/parse-other-type-with-unit", (cls_.__name__, txt, tgt.symbol),
                 outcomes[0] == outcomes[1] == "QuantityError",
                 outcomes[0], outcomes[1])

    # parse-with-explicit-unit == parse-then-convert under the converters that
    # are active *now* (registered, replaced, removed between the parses)
    if not job.shard:
        from quantity import UnitConversionError
        from quantity.money import Money, MoneyConverter
        EUR = Money.register_currency("EUR")
        USD = Money.register_currency("USD")
        convs = []
        for rate in (Decimal("1.25"), Decimal("1.6"), Decimal("0.8")):
            c = MoneyConverter(EUR)
            c.update(None, [(USD, rate, 1)])
            convs.append(c)
        texts = ["100 USD", "12.34 USD", "1/3 USD", "100 EUR"]

        def both(text, target):
            out = []
            for fn in (lambda: Money(text, target),
                       lambda: Quantity(text, target),
                       lambda: Money(text).convert(target)):
                try:
                    r = fn()
                    out.append((r.unit.symbol, O.F(r.amount)))
                except UnitConversionError:
                    out.append("UnitConversionError")
            return out
        for order in ((0, 1, 2), (2, 0, 1), (1, 1, 0)):
            for i in order:
                with convs[i]:
                    for text in texts:
                        for target in (EUR, USD):
                            r = both(text, target)
                            job.case("parse/explicit-unit-under-current-converter",
                                     (text, target.symbol, i), r[0] == r[2] and
                                     r[1] == r[2], r, "parse then convert")
                for text in texts:
                    for target in (EUR, USD):
                        r = both(text, target)
                        same = text.endswith(target.symbol)
                        job.case("parse/explicit-unit-without-converter",
                                 (text, target.symbol, i),
                                 r[0] == r[1] == r[2] and
                                 (same or r[0] == "UnitConversionError"), r,
                                 "UnitConversionError")
