"""Bounded stand-in for C04 (comparisons agree with exact reference values)."""
import operator
from fractions import Fraction

from decimalfp import Decimal

from . import oracle as O
from . import world as W

OPS = [("lt", operator.lt), ("le", operator.le), ("eq", operator.eq),
       ("ne", operator.ne), ("ge", operator.ge), ("gt", operator.gt)]


def run(job):
    from quantity.predefined import (CENTIMETRE, INCH, KILOMETRE, METRE, MILE,
                                     LITRE, CUBIC_DECIMETRE, JOULE, NEWTON_METRE,
                                     WATT_SECOND, MILLILITRE, CUBIC_CENTIMETRE)
    quick = job.tier != "thorough"
    c2, u2 = W.linear_type([Fraction(7, 3), Decimal("0.125"), Fraction(7, 3)])
    groups = [[METRE, KILOMETRE, INCH, MILE, CENTIMETRE], u2,
              [LITRE, CUBIC_DECIMETRE, MILLILITRE, CUBIC_CENTIMETRE],
              [JOULE, NEWTON_METRE, WATT_SECOND]]
    amounts = (W.amounts_grid(job.extra) if not quick else
               W.amounts_grid()[1:3] + W.amounts_grid()[5:7] +
               W.amounts_grid()[8:10] + list(job.extra)[:4]) + [Decimal("39.37007874015748031496062992125984251968503937007874015748031")]
    job.bound = f"{len(groups)} types x unit pairs x {len(amounts)}^2 amounts x 6 operators"
    for g in groups:
        if quick:
            g = g[:3]
        for ua in g:
            for ub in g:
                if not job.mine():
                    continue
                for name, op in OPS[:2] + OPS[2:3] + OPS[4:]:
                    try:
                        r = op(ua, ub)
                    except Exception as e:
                        job.case(f"unit/{name}", (ua.symbol, ub.symbol), False,
                                 repr(e), "")
                        continue
                    job.case(f"unit/{name}", (ua.symbol, ub.symbol),
                             r == op(O.chain_scale(ua), O.chain_scale(ub)),
                             r, "by scale")
                for a in amounts:
                    for b in (amounts if not quick else amounts[::3]):
                        x, y = a * ua, b * ub
                        # near-ties: equal across units
                        ys = [y, (O.F(x.amount) * O.chain_scale(ua) /
                                  O.chain_scale(ub)) * ub]
                        for y in ys:
                            for name, op in OPS:
                                try:
                                    r = op(x, y)
                                except Exception as e:
                                    job.case(f"qty/{name}", (repr(x), repr(y)),
                                             False, repr(e), "")
                                    continue
                                job.case(f"qty/{name}", (repr(x), repr(y)),
                                         r is op(O.refval(x), O.refval(y)), r,
                                         op(O.refval(x), O.refval(y)))
                            job.case("qty/trichotomy", (repr(x), repr(y)),
                                     [x < y, x == y, x > y].count(True) == 1,
                                     "", "")
        if job.shard:
            continue
        qs = [a * u for a in amounts[:6] for u in g[:3]]
        s = sorted(qs)
        job.case("qty/sorted", len(qs),
                 all(O.refval(s[i]) <= O.refval(s[i + 1]) for i in range(len(s) - 1)),
                 "", "")
