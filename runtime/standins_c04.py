"""Bounded stand-in for C04 (comparisons agree with exact reference values)."""
import operator
from fractions import Fraction

from decimalfp import Decimal

from . import oracle as O
from . import world as W

OPS = [("lt", operator.lt), ("le", operator.le), ("eq", operator.eq),
       ("ne", operator.ne), ("ge", operator.ge), ("gt", operator.gt)]


def run(job):
    from quantity.predefined import (CENTIMETRE, INCH, KILOMETRE, METRE, MILE,
                                     LITRE, CUBIC_DECIMETRE, JOULE, NEWTON_METRE,
                                     WATT_SECOND, MILLILITRE, CUBIC_CENTIMETRE)
    quick = job.tier != "thorough"
    c2, u2 = W.linear_type([Fraction(7, 3), Decimal("0.125"), Fraction(7, 3)])
    groups = [[METRE, KILOMETRE, INCH, MILE, CENTIMETRE], u2,
              [LITRE, CUBIC_DECIMETRE, MILLILITRE, CUBIC_CENTIMETRE],
              [JOULE, NEWTON_METRE, WATT_SECOND]]
    amounts = (W.amounts_grid(job.extra) if not quick else
               W.amounts_grid()[1:3] + W.amounts_grid()[5:7] +
               W.amounts_grid()[8:10] + list(job.extra)[:4]) + [Decimal("39.37007874015748031496062992125984251968503937007874015748031")]
    job.bound = f"{len(groups)} types x unit pairs x {len(amounts)}^2 amounts x 6 operators"
    if not job.shard:
        symbol_collisions(job)
        after_allocate(job)
    for g in groups:
        if quick:
            g = g[:3]
        for ua in g:
            for ub in g:
                if not job.mine():
                    continue
                for name, op in OPS[:2] + OPS[2:3] + OPS[4:]:
                    try:
                        r = op(ua, ub)
                    except Exception as e:
                        job.case(f"unit/{name}", (ua.symbol, ub.symbol), False,
                                 repr(e), "")
                        continue
                    job.case(f"unit/{name}", (ua.symbol, ub.symbol),
                             r == op(O.chain_scale(ua), O.chain_scale(ub)),
                             r, "by scale")
                for a in amounts:
                    for b in (amounts if not quick else amounts[::3]):
                        x, y = a * ua, b * ub
                        # near-ties: equal across units
                        ys = [y, (O.F(x.amount) * O.chain_scale(ua) /
                                  O.chain_scale(ub)) * ub]
                        for y in ys:
                            for name, op in OPS:
                                try:
                                    r = op(x, y)
                                except Exception as e:
                                    job.case(f"qty/{name}", (repr(x), repr(y)),
                                             False, repr(e), "")
                                    continue
                                job.case(f"qty/{name}", (repr(x), repr(y)),
                                         r is op(O.refval(x), O.refval(y)), r,
                                         op(O.refval(x), O.refval(y)))
                            job.case("qty/trichotomy", (repr(x), repr(y)),
                                     [x < y, x == y, x > y].count(True) == 1,
                                     "", "")
        if job.shard:
            continue
        qs = [a * u for a in amounts[:6] for u in g[:3]]
        s = sorted(qs)
        job.case("qty/sorted", len(qs),
                 all(O.refval(s[i]) <= O.refval(s[i + 1]) for i in range(len(s) - 1)),
                 "", "")


def symbol_collisions(job):
    """unit pairs whose concatenated symbols coincide ('m'+'mm' == 'mm'+'m',
    'a'+'cm²' == 'ac'+'m²', 'dm'+'in' == 'd'+'min'), used one after the other
    in one process: every result must be the one a fresh process gives"""
    from quantity.predefined import (METRE, MILLIMETRE, ARE, SQUARE_CENTIMETRE,
                                     ACRE, SQUARE_METRE, DECIMETRE, INCH, DAY,
                                     MINUTE)
    seqs = [((METRE, MILLIMETRE), (MILLIMETRE, METRE)),
            ((MILLIMETRE, METRE), (METRE, MILLIMETRE)),
            ((ARE, SQUARE_CENTIMETRE), (ACRE, SQUARE_METRE)),
            ((ACRE, SQUARE_METRE), (ARE, SQUARE_CENTIMETRE)),
            ((DECIMETRE, INCH), (DAY, MINUTE)),
            ((DAY, MINUTE), (DECIMETRE, INCH))]
    for seq in seqs:
        for ua, ub in seq:
            for a, b in ((1, 5), (Fraction(1, 3), Fraction(1000, 3)), (-2, 7)):
                x, y = a * ua, b * ub
                vx, vy = O.refval(x), O.refval(y)
                for name, op in OPS:
                    job.case(f"collision/{name}", (repr(x), repr(y)),
                             op(x, y) is op(vx, vy), "", "")
                s = x + y
                job.case("collision/add", (repr(x), repr(y)),
                         O.refval(s) == vx + vy and s.unit is ua, repr(s), "")
                c = x.convert(ub)
                job.case("collision/convert", (repr(x), ub.symbol),
                         O.refval(c) == vx and c.unit is ub, repr(c), "")
                job.case("collision/unit-order", (ua.symbol, ub.symbol),
                         (ua < ub) is (O.chain_scale(ua) < O.chain_scale(ub)) and
                         (ua > ub) is (O.chain_scale(ua) > O.chain_scale(ub)),
                         "", "")


def after_allocate(job):
    """portions whose amounts were adjusted in place by allocate() compare by
    their actual value (no stale cached reference value)"""
    from quantity.predefined import BIT, BYTE, KILOBIT
    W.set_mode("ROUND_HALF_EVEN")
    for q, ratios in ((10 * BIT, [1, 1, 1]), (7 * BYTE, [1, 1, 1, 1, 1]),
                      (1 * KILOBIT, [3, 3, 1]), (-10 * BIT, [1, 1, 1])):
        portions, rem = q.allocate(ratios)
        others = [k * u for u in (BIT, BYTE) for k in (0, 1, 3, Fraction(3, 8), 4,
                                                       Fraction(1, 2), -3, -4)]
        for p in portions + [rem]:
            vp = O.refval(p)
            for y in others + [pp.convert(BYTE) for pp in portions]:
                vy = O.refval(y)
                for name, op in OPS:
                    job.case(f"after-allocate/{name}", (repr(p), repr(y)),
                             op(p, y) is op(vp, vy) and op(y, p) is op(vy, vp),
                             "", "")
