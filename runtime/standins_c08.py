"""Bounded stand-in for C08: the whole bundled ISO 4217 table (read by an
independent parser), mixed-currency operations without a converter, user
declared currencies."""
import itertools
import operator
import os
import re
from fractions import Fraction

from decimalfp import Decimal

from . import oracle as O
from . import world as W

SHARDS = 8


def iso_table():
    """independent reader of iso_4217.xml: regular expressions over the text,
    no shared code with quantity/money/currencies.py"""
    import quantity.money as QM
    path = os.path.join(os.path.dirname(QM.__file__), "iso_4217.xml")
    text = open(path, encoding="utf-8").read()
    out = {}
    for block in re.findall(r"<CcyNtry>(.*?)</CcyNtry>", text, re.S):
        def tag(t):
            m = re.search(rf"<{t}(?:\s[^>]*)?>(.*?)</{t}>", block, re.S)
            return None if m is None else m.group(1)
        code, name, minor, num = tag("Ccy"), tag("CcyNm"), tag("CcyMnrUnts"), \
            tag("CcyNbr")
        if code and minor is not None and minor.isdigit() and num and num.isdigit():
            name = (name or "").replace("&amp;", "&").replace("&apos;", "'")
            out.setdefault(code, (name, int(minor)))
    return out


def run(job):
    from quantity import (Quantity, UndefinedResultError, UnitConversionError,
                          Unit)
    from quantity.money import Money, Currency, get_currency_info
    quick = job.tier != "thorough"
    table = iso_table()
    job.bound = (f"all {len(table)} functional currencies of the bundled table "
                 f"(exhaustive); ordered pairs of a currency sample x 6 "
                 f"operators x amounts; declared currencies")
    codes = sorted(table)
    # ---- the whole table -----------------------------------------------------
    for i, code in enumerate(codes):
        if i % job.nshards != job.shard:
            continue
        name, minor = table[code]
        c = Money.register_currency(code)
        again = Money.register_currency(code)
        info = get_currency_info(code)
        ok = (isinstance(c, Currency) and c is again and Unit(code) is c and
              c.symbol == code and c.name == name and info[2] == name and
              O.F(c.smallest_fraction) == Fraction(1, 10 ** minor) and
              O.F(c.quantum) == Fraction(1, 10 ** minor) and info[3] == minor)
        job.case("iso/registration", code, ok,
                 (c.name, repr(c.smallest_fraction)), (name, minor))
        for a in (Decimal("1.23456"), Fraction(2, 3), 5, Decimal("0.5") / 10 ** minor):
            m = Money(a, c)
            exp = O.round_mode(O.F(a) * 10 ** minor, O.dflt_mode()) / Fraction(10 ** minor)
            job.case("iso/amount-rounded-to-fraction", (code, repr(a)),
                     O.F(m.amount) == exp and m.unit is c, repr(m), repr(exp))
    if job.shard == 0:
        for bad in ("XXX", "XAU", "ZZZ", "eur", "", "EURO", "XTS"):
            try:
                r = Money.register_currency(bad)
                job.case("iso/unknown-code", bad, bad in table, repr(r),
                         "ValueError")
            except ValueError:
                job.case("iso/unknown-code", bad, bad not in table)
    # ---- mixed currencies without converter -------------------------------------
    sample = [Money.register_currency(c) for c in
              (["EUR", "USD", "JPY", "BHD", "CLF", "GBP"] if quick else
               codes[::7])]
    amounts = [Decimal("12.34"), Fraction(1, 3), 0, Decimal("0.0004"), -5]
    assert not list(Money.registered_converters())
    for ca, cb in itertools.permutations(sample, 2):
        if not job.mine():
            continue
        for a, b in itertools.product(amounts, amounts[:3]):
            x, y = Money(a, ca), Money(b, cb)
            for name, fn in (("add", lambda: x + y), ("sub", lambda: x - y),
                             ("div", lambda: x / y), ("lt", lambda: x < y),
                             ("ge", lambda: x >= y),
                             ("convert", lambda: x.convert(cb)),
                             ("parse-with-other-currency",
                              lambda: Money(f"{a} {ca.symbol}", cb)),
                             ("generic-parse-with-other-currency",
                              lambda: Quantity(f"{a} {ca.symbol}", cb)),
                             ("unit-div", lambda: ca / cb)):
                try:
                    r = fn()
                    job.case(f"mixed/{name}", (repr(x), repr(y)), False, repr(r),
                             "UnitConversionError")
                except UnitConversionError:
                    job.case(f"mixed/{name}", (repr(x), repr(y)), True)
                except Exception as e:
                    job.case(f"mixed/{name}", (repr(x), repr(y)), False, repr(e),
                             "UnitConversionError")
            job.case("mixed/eq", (repr(x), repr(y)),
                     (x == y) is False and (x != y) is True, "", "")
            try:
                r = x * y
                job.case("mixed/mul", (repr(x), repr(y)), False, repr(r),
                         "UndefinedResultError")
            except UndefinedResultError:
                job.case("mixed/mul", (repr(x), repr(y)), True)
    for c in sample:
        if not job.mine():
            continue
        for a, b in itertools.product(amounts, amounts):
            x, y = Money(a, c), Money(b, c)
            s = x + y
            job.case("same/add", (repr(x), repr(y)),
                     s.unit is c and O.F(s.amount) == O.F(x.amount) + O.F(y.amount),
                     repr(s), "")
            job.case("same/cmp", (repr(x), repr(y)),
                     (x < y) is (O.F(x.amount) < O.F(y.amount)) and
                     (x == y) is (O.F(x.amount) == O.F(y.amount)), "", "")
            if O.F(y.amount) != 0:
                job.case("same/div", (repr(x), repr(y)),
                         O.F(x / y) == O.F(x.amount) / O.F(y.amount), "", "")
    if job.shard:
        return
    # ---- user declared currencies --------------------------------------------------
    good = [dict(), dict(minor_unit=0), dict(minor_unit=3),
            dict(smallest_fraction="0.05"), dict(smallest_fraction=Decimal("0.25")),
            dict(smallest_fraction="0.001"), dict(minor_unit=2,
                                                  smallest_fraction="0.05")]
    expect = [Fraction(1, 100), 1, Fraction(1, 1000), Fraction(1, 20),
              Fraction(1, 4), Fraction(1, 1000), Fraction(1, 20)]
    for kw, exp in zip(good, expect):
        sym = W.uid("UC")
        c = Money.new_unit(sym, "user currency", **kw)
        job.case("declared/fraction", repr(kw),
                 O.F(c.smallest_fraction) == exp and Unit(sym) is c and
                 O.F(Money(Decimal("1.03"), c).amount) ==
                 O.round_mode(Fraction("1.03") / exp, O.dflt_mode()) * exp,
                 repr(c.smallest_fraction), repr(exp))
    bad = [dict(minor_unit=-1), dict(minor_unit=2.5), dict(smallest_fraction="0.3"),
           dict(smallest_fraction=0), dict(smallest_fraction=-1),
           dict(smallest_fraction=2), dict(smallest_fraction="abc"),
           dict(minor_unit=2, smallest_fraction="0.001"),
           dict(smallest_fraction=1)]
    for kw in bad:
        sym = W.uid("UB")
        try:
            c = Money.new_unit(sym, "bad", **kw)
            job.case("declared/rejected", repr(kw), False, repr(c), "exception")
        except (ValueError, TypeError):
            try:
                Unit(sym)
                job.case("declared/rejected", repr(kw), False, "registered", "")
            except ValueError:
                job.case("declared/rejected", repr(kw), True)
