"""L6 harness: real library code under /venv/bin/python (pure-Python decimalfp)."""
