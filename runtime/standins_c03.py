"""Bounded stand-in for C03 (addition / subtraction / type separation)."""
import operator
from fractions import Fraction

from decimalfp import Decimal

from . import oracle as O
from . import world as W


def run(job):
    from quantity import IncompatibleUnitsError, Quantity
    from quantity.predefined import (GRAM, KILOGRAM, KILOMETRE, METRE, MILE,
                                     SECOND, BYTE, KILOBIT, BIT)
    import quantity
    quick = job.tier != "thorough"
    c2, u2 = W.linear_type([Fraction(7, 3), Decimal("0.125")])
    cq, uq = W.linear_type([Decimal(8), Fraction(3, 4)], quantum=Fraction(1, 4))
    groups = [[METRE, KILOMETRE, MILE], u2, uq, [BYTE, KILOBIT, BIT]]
    amounts = W.amounts_grid(job.extra)
    if quick:
        amounts = amounts[1:3] + amounts[5:7] + amounts[8:10] + list(job.extra)[:4]
    job.bound = f"{len(groups)} types x unit pairs x {len(amounts)}^2 amounts"
    for g in groups:
        for ua in g:
            for ub in g:
                if not job.mine():
                    continue
                for a in amounts:
                    for b in amounts[::2]:
                        x, y = a * ua, b * ub
                        for name, op, sgn in (("add", operator.add, 1),
                                              ("sub", operator.sub, -1)):
                            r = op(x, y)
                            exp = O.q_round(O.F(x.amount) + sgn * O.F(y.amount) *
                                            O.chain_scale(ub) / O.chain_scale(ua), ua)
                            ok = (type(r) is type(x) and r.unit is ua and
                                  O.F(r.amount) == exp and O.is_exact(r.amount))
                            job.case(f"{name}/value", (repr(a), ua.symbol, repr(b),
                                                       ub.symbol), ok, repr(r), repr(exp))
                            # exact by reference value (also for quantized types)
                            job.case(f"{name}/refval-exact",
                                     (repr(a), ua.symbol, repr(b), ub.symbol),
                                     O.refval(r) == O.refval(x) + sgn * O.refval(y),
                                     repr(O.refval(r)), "sum of refvals")
                        job.case("add/commutative",
                                 (repr(a), ua.symbol, repr(b), ub.symbol),
                                 O.refval(x + y) == O.refval(y + x), "", "")
                    x = a * ua
                    n = -x
                    job.case("neg/inverse", (repr(a), ua.symbol),
                             type(n) is type(x) and n.unit is ua and
                             O.refval(x + n) == 0 and O.refval(abs(x)) ==
                             abs(O.refval(x)) and (+x) is x, repr(n), "")
        if job.shard:
            continue
        a0, b0, c0 = amounts[2] * g[0], amounts[4] * g[1], amounts[5] * g[-1]
        job.case("add/associative", (repr(a0), repr(b0), repr(c0)),
                 O.refval((a0 + b0) + c0) == O.refval(a0 + (b0 + c0)), "", "")
        job.case("sum/fold", (repr(a0), repr(b0), repr(c0)),
                 O.refval(quantity.sum([a0, b0, c0])) ==
                 O.refval(a0) + O.refval(b0) + O.refval(c0), "", "")
        if g[0]._qty_cls._quantum is None:
            for k in (3, Fraction(2, 3), Decimal("0.1")):
                job.case("mul/distributes", (repr(k), repr(a0), repr(b0)),
                         O.refval(k * (a0 + b0)) == O.refval(k * a0 + k * b0),
                         "", "")
    # type separation
    if job.shard:
        return
    nums = [0, 1, 293, Decimal(5), Decimal(0), Fraction(1, 3), 0.0, 2.5]
    for x in (2 * METRE, Fraction(1, 3) * u2[1]):
        for y in (3 * KILOGRAM, 1 * SECOND, 2 * uq[0], 0 * KILOGRAM,
                  Decimal(0) * SECOND, Fraction(0) * uq[0]):
            for name, fn in (("add", lambda: x + y), ("sub", lambda: x - y),
                             ("lt", lambda: x < y), ("ge", lambda: x >= y)):
                try:
                    r = fn()
                    job.case(f"{name}/other-type", (repr(x), repr(y)), False,
                             repr(r), "IncompatibleUnitsError")
                except IncompatibleUnitsError:
                    job.case(f"{name}/other-type", (repr(x), repr(y)), True)
                except Exception as e:
                    job.case(f"{name}/other-type", (repr(x), repr(y)), False,
                             repr(e), "IncompatibleUnitsError")
            job.case("eq/other-type", (repr(x), repr(y)),
                     (x == y) is False and (x != y) is True, "", "")
        for k in nums:
            for name, fn in (("add", lambda: x + k), ("radd", lambda: k + x),
                             ("sub", lambda: x - k), ("rsub", lambda: k - x),
                             ("lt", lambda: x < k), ("rgt", lambda: k > x)):
                try:
                    r = fn()
                    job.case(f"{name}/number", (repr(x), repr(k)), False,
                             repr(r), "TypeError")
                except TypeError:
                    job.case(f"{name}/number", (repr(x), repr(k)), True)
                except Exception as e:
                    job.case(f"{name}/number", (repr(x), repr(k)), False,
                             repr(e), "TypeError")
            job.case("eq/number", (repr(x), repr(k)), (x == k) is False, "", "")

    # the library's sum() over every kind of iterable is the fold of `+`
    # (exact, left operand's unit) and never yields a value for mixed types
    import quantity
    qs = [3 * METRE, Decimal("0.5") * KILOMETRE if False else 4 * METRE,
          Fraction(1, 3) * METRE, 2 * METRE]
    from quantity.predefined import KILOMETRE as _KM
    qs[1] = Decimal("0.5") * _KM
    for n in range(0, 5):
        seq = qs[:n]
        exp = sum((O.refval(q) for q in seq), Fraction(0))
        for kind, mk in (("list", lambda: list(seq)), ("tuple", lambda: tuple(seq)),
                         ("generator", lambda: (q for q in seq)),
                         ("iter", lambda: iter(seq)),
                         ("map", lambda: map(lambda q: q, seq))):
            r = quantity.sum(mk())
            ok = (r == 0 and n == 0) or (n > 0 and type(r) is type(seq[0]) and
                                         r.unit is seq[0].unit and
                                         O.refval(r) == exp)
            job.case("sum/fold", (kind, n), ok, repr(r), repr(exp))
            if n:
                r = quantity.sum(mk(), 1 * METRE)
                job.case("sum/fold-with-start", (kind, n),
                         O.refval(r) == exp + 1, repr(r), repr(exp + 1))
    mixed = [1 * METRE, 1 * KILOGRAM, 2 * METRE]
    for kind, mk in (("list", lambda: list(mixed)),
                     ("generator", lambda: (q for q in mixed)),
                     ("iter", lambda: iter(mixed))):
        try:
            r = quantity.sum(mk())
            job.case("sum/other-type", kind, False, repr(r),
                     "IncompatibleUnitsError")
        except IncompatibleUnitsError:
            job.case("sum/other-type", kind, True)

    # pairs of units whose concatenated symbols coincide (C04 stand-in)
    from .standins_c04 import symbol_collisions
    symbol_collisions(job)
