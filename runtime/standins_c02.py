"""Bounded stand-in for C02 (products, quotients, powers) on the real code,
incl. the base case of DirInv on the live directories."""
import operator
from fractions import Fraction

from decimalfp import Decimal

from . import oracle as O
from . import world as W


def expected(n, v, units_by_dim):
    """(defined?, is_number)"""
    if not v:
        return True, True
    key = tuple(sorted(v.items()))
    cands = units_by_dim.get(key, [])
    ok = any(O.den(u)[0] == n or O.den(u)[0] == 1 for u in cands)
    return ok, False


def run(job):
    import quantity
    from quantity import (Quantity, QuantityMeta, UndefinedResultError, Unit)
    import quantity.predefined as P
    from quantity.money import Money
    quick = job.tier != "thorough"
    EUR = Money.register_currency("EUR")
    # user types: a quantized derived type and a reciprocal type
    T, tu = W.linear_type([Decimal(3), Fraction(1, 7)])
    R = QuantityMeta(W.uid("VR"), (Quantity,), {}, define_as=T ** -1,
                     ref_unit_symbol=W.uid("rr"), quantum=1)
    PM = QuantityMeta(W.uid("VPM"), (Quantity,), {}, define_as=Money / P.Mass)
    eur_kg = PM.derive_unit_from(EUR, P.KILOGRAM)
    USD = Money.register_currency("USD")
    usd_kg = PM.derive_unit_from(USD, P.KILOGRAM)
    if not job.shard:
        # two units of a type without reference unit (both of "scale 1"):
        # each operation must give its own currency, whatever was evaluated
        # before in this process
        for first, second in ((eur_kg, usd_kg), (usd_kg, eur_kg)):
            for u in (first, second):
                cur = EUR if u is eur_kg else USD
                r = (2 * u) * (3 * P.KILOGRAM)
                job.case("compound/mul-gives-own-currency", (u.symbol, first.symbol),
                         r.unit is cur and O.F(r.amount) == 6, repr(r), cur.symbol)
                r = (3 * P.KILOGRAM) * (2 * u)
                job.case("compound/mul-gives-own-currency", ("r", u.symbol),
                         r.unit is cur and O.F(r.amount) == 6, repr(r), cur.symbol)
                r = (2 * u) * (500 * P.GRAM)
                job.case("compound/mul-gives-own-currency", ("g", u.symbol),
                         r.unit is cur and O.F(r.amount) == 1, repr(r), cur.symbol)
                other = USD if cur is EUR else EUR
                r = (6 * cur) / (2 * u)
                job.case("compound/div-gives-mass", (cur.symbol, u.symbol),
                         r.unit is P.KILOGRAM and O.F(r.amount) == 3, repr(r), "3 kg")
                try:
                    r = (6 * other) / (2 * u)
                    job.case("compound/div-other-currency-undefined",
                             (other.symbol, u.symbol), False, repr(r),
                             "UndefinedResultError")
                except UndefinedResultError:
                    job.case("compound/div-other-currency-undefined",
                             (other.symbol, u.symbol), True)
    # aliases: units that compare equal to a base unit / a derived unit but
    # are distinct objects (scale 1 resp. equal scale)
    P.Length.new_unit(W.uid("mx"), define_as=Decimal(1) * P.METRE)
    P.Duration.new_unit(W.uid("sx"), define_as=Fraction(1) * P.SECOND)
    P.Mass.new_unit(W.uid("Mgx"), define_as=Decimal(1000) * P.KILOGRAM)
    units = O.all_units()
    by_dim = {}
    for u in units:
        by_dim.setdefault(tuple(sorted(O.den(u)[1].items())), []).append(u)
    # --- DirInv on the live directories (base case of the invariant) --------
    if job.shard == 0:
        tm = quantity._TERM_UNIT_MAP
        for u in units:
            idx = tm._item_def_map.get(u.normalized_definition)
            ok = idx is not None and len(tm._item_list[idx]) >= 1
            first = tm._item_list[idx][0] if idx is not None else None
            ok = ok and O.den(first) == O.den(u) and \
                quantity._SYMBOL_UNIT_MAP[u.symbol] is u and \
                u.qty_cls.get_unit_by_symbol(u.symbol) is u
            job.case("dirinv/live", u.symbol, ok, repr(first), "bucket holds unit")
        for (op, a, b), entry in list(quantity._UNIT_OP_CACHE.items()):
            if not (isinstance(entry, tuple) and len(entry) == 2):
                job.case("cacheinv/live", (op.__name__, a.symbol, b.symbol), False,
                         repr(entry), "an (amount, unit) result")
                continue
            amnt, ru = entry
            n1, v1 = O.den(a)
            n2, v2 = O.den(b)
            sgn = 1 if op is operator.mul else -1
            n = n1 * n2 ** sgn
            v = O.vec_op(v1, v2, sgn)
            if ru is None:
                ok = not v and O.F(amnt) == n
            else:
                rn, rv = O.den(ru)
                ok = rv == v and O.F(amnt) * rn == n
            job.case("cacheinv/live", (op.__name__, a.symbol, b.symbol), ok,
                     repr((amnt, ru)), repr((n, v)))
    sample = units if not quick else \
        [u for i, u in enumerate(sorted(units, key=lambda x: x.symbol))
         if i % 5 == 0] + tu + [R.ref_unit, eur_kg, EUR, P.KILOGRAM, P.SECOND,
                                P.HERTZ, P.METRE, P.KILOMETRE, P.HOUR,
                                P.KILOBIT_PER_SECOND, P.KILOHERTZ, P.NEWTON]
    amounts = [Decimal(3), Fraction(2, 7), Decimal("-1.5")] + \
        [x for x in job.extra if x != 0][:2]
    job.bound = (f"{len(sample)}^2 ordered unit pairs x (*,/) x unit/quantity "
                 f"operands x {len(amounts)} amounts; powers -3..3")
    for ua in sample:
        for ub in sample:
            if not job.mine():
                continue
            n1, v1 = O.den(ua)
            n2, v2 = O.den(ub)
            for name, op, sgn in (("mul", operator.mul, 1),
                                  ("div", operator.truediv, -1)):
                n = n1 * n2 ** sgn
                v = O.vec_op(v1, v2, sgn)
                same = ua.qty_cls is ub.qty_cls
                if name == "div" and same:
                    if ua.qty_cls.ref_unit is None and ua is not ub:
                        continue        # not convertible: C08
                    defined, is_num = True, True
                else:
                    defined, is_num = expected(n, v, by_dim)
                for kind in ("unit-unit", "qty-qty", "qty-unit", "unit-qty"):
                    a, b = amounts[0], amounts[1]
                    x = ua if kind.startswith("unit") else a * ua
                    y = ub if kind.endswith("unit") else b * ub
                    xa = O.F(x.amount) if kind.startswith("qty") else Fraction(1)
                    ya = O.F(y.amount) if kind.endswith("qty") else Fraction(1)
                    if name == "div" and ya == 0:
                        continue
                    inp = (kind, name, repr(x), repr(y))
                    try:
                        r = op(x, y)
                    except UndefinedResultError:
                        job.case(f"{name}/undefined-iff-no-type", inp,
                                 not defined, "UndefinedResultError",
                                 "defined" if defined else "undefined")
                        continue
                    except Exception as e:
                        job.case(f"{name}/outcome", inp, False, repr(e),
                                 "value or UndefinedResultError")
                        continue
                    if not defined:
                        job.case(f"{name}/undefined-iff-no-type", inp, False,
                                 repr(r), "UndefinedResultError")
                        continue
                    exact = xa * ya ** sgn * n
                    if kind == "unit-unit":
                        amnt, ru = r
                        if ru is None:
                            ok = is_num and O.F(amnt) == exact
                        else:
                            rn, rvv = O.den(ru)
                            ok = rvv == v and O.F(amnt) * rn == exact
                        job.case(f"{name}/unit-pair", inp, ok, repr(r), repr((n, v)))
                        continue
                    if is_num:
                        ok = not isinstance(r, Quantity) and O.F(r) == exact \
                            and O.is_exact(r)
                        job.case(f"{name}/cancel-to-number", inp, ok, repr(r),
                                 repr(exact))
                        continue
                    ok = isinstance(r, Quantity) and type(r) is r.unit.qty_cls
                    if ok:
                        rn, rvv = O.den(r.unit)
                        ok = rvv == v and O.F(r.amount) == \
                            O.q_round(exact / rn, r.unit) and O.is_exact(r.amount)
                    job.case(f"{name}/value", inp, ok, repr(r),
                             f"{exact} in base units, dim {v}")
    # powers and scalars
    for u in sample:
        if not job.mine():
            continue
        n1, v1 = O.den(u)
        for e in range(-3, 4):
            for a in amounts[:2]:
                q = a * u
                n = n1 ** e if e else Fraction(1)
                v = {k: x * e for k, x in v1.items()} if e else {}
                defined, is_num = expected(n, v, by_dim)
                if e < 0 and O.F(q.amount) == 0:
                    try:
                        r = q ** e
                        job.case("pow/zero-to-negative", (repr(q), e), False,
                                 repr(r), "an exception")
                    except Exception:
                        job.case("pow/zero-to-negative", (repr(q), e), True)
                    continue
                try:
                    r = q ** e
                except UndefinedResultError:
                    job.case("pow/undefined-iff-no-type", (repr(q), e),
                             not defined, "UndefinedResultError", "")
                    continue
                except Exception as ex:
                    job.case("pow/outcome", (repr(q), e), False, repr(ex), "")
                    continue
                exact = O.F(q.amount) ** e * n
                if e == 0:
                    job.case("pow/zero", (repr(q), e), r == 1, repr(r), 1)
                    continue
                ok = defined and isinstance(r, Quantity) and \
                    type(r) is r.unit.qty_cls
                if ok:
                    rn, rvv = O.den(r.unit)
                    ok = rvv == v and O.F(r.amount) == O.q_round(exact / rn, r.unit)
                job.case("pow/value", (repr(q), e), ok, repr(r), repr(exact))
        for k in (3, Decimal("0.5"), Fraction(2, 3), 0.25):
            for a in amounts[:2]:
                q = a * u
                for name, fn, ex in (
                        ("mul", lambda: q * k, O.F(q.amount) * O.F(k)),
                        ("rmul", lambda: k * q, O.F(q.amount) * O.F(k)),
                        ("div", lambda: q / k, O.F(q.amount) / O.F(k))):
                    r = fn()
                    job.case(f"scalar/{name}", (repr(q), repr(k)),
                             type(r) is type(q) and r.unit is u and
                             O.F(r.amount) == O.q_round(ex, u), repr(r), repr(ex))
                # k / q -> reciprocal type
                if O.F(q.amount) != 0:
                    v = {kk: -x for kk, x in v1.items()}
                    defined, _ = expected(1 / n1, v, by_dim)
                    try:
                        r = k / q
                    except UndefinedResultError:
                        job.case("scalar/rdiv-undefined", (repr(k), repr(q)),
                                 not defined, "UndefinedResultError", "")
                        continue
                    rn, rvv = O.den(r.unit)
                    ex = O.F(k) / O.F(q.amount) / n1
                    job.case("scalar/rdiv", (repr(k), repr(q)),
                             defined and rvv == v and O.F(r.amount) ==
                             O.q_round(ex / rn, r.unit), repr(r), repr(ex))
