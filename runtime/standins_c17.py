"""Bounded stand-in for C17 (history independence): the same operations are
evaluated in fresh interpreters with different histories (attempt before the
type exists, repetitions, operand orders, declaration orders) and compared by
reference value and type name."""
import json
import os
import subprocess
import sys

SHARDS = 1

PRELUDE = r'''
import json, sys
from fractions import Fraction
from decimalfp import Decimal
from quantity import *
from quantity import QuantityMeta
from quantity.predefined import *
sys.path.insert(0, %(root)r)
from runtime import oracle as O
OUT = []
def val(r):
    if isinstance(r, Quantity):
        n, v = O.den(r.unit)
        return [type(r).__name__, str(O.F(r.amount) * n), sorted(v.items())]
    if isinstance(r, tuple):
        a, u = r
        if u is None:
            return ["number", str(O.F(a)), []]
        n, v = O.den(u)
        return [u.qty_cls.__name__, str(O.F(a) * n), sorted(v.items())]
    return ["number", str(O.F(r)), []]
def ev(label, fn):
    try:
        OUT.append([label, val(fn())])
    except UndefinedResultError:
        OUT.append([label, "UndefinedResultError"])
    except Exception as e:
        OUT.append([label, "EXC " + type(e).__name__])
def declare_momentum():
    global Momentum
    Momentum = QuantityMeta("Momentum", (Quantity,), {}, define_as=Mass * Velocity, ref_unit_symbol="kgm/s")
def declare_jerk():
    global Jerk
    Jerk = QuantityMeta("Jerk", (Quantity,), {}, define_as=Length / Duration ** 3)
def declare_area_units():
    global HM2
    HM2 = Area.new_unit("hm2", define_as=Decimal(10000) * SQUARE_METRE)
# a type without reference unit whose units are derived later (Money / Mass)
from quantity.money import Money
EUR = Money.register_currency("EUR")
PricePerMass = None
def declare_price():
    global PricePerMass
    if PricePerMass is None:
        PricePerMass = QuantityMeta("PricePerMass", (Quantity,), {}, define_as=Money / Mass)
USD = Money.register_currency("USD")
def derive_price_unit():
    global EUR_PER_KG
    declare_price()
    EUR_PER_KG = PricePerMass.derive_unit_from(EUR, KILOGRAM)
def derive_usd_price_unit():
    global USD_PER_KG
    declare_price()
    USD_PER_KG = PricePerMass.derive_unit_from(USD, KILOGRAM)
'''

# operations (label, python expression)
OPS = [
    ("km*mg", "(3 * KILOMETRE) * (2 * MILLIGRAM)"),
    ("mg*km", "(2 * MILLIGRAM) * (3 * KILOMETRE)"),
    ("g*kmh", "(Fraction(2, 7) * GRAM) * (5 * KILOMETRE_PER_HOUR)"),
    ("kmh*g", "(5 * KILOMETRE_PER_HOUR) * (Fraction(2, 7) * GRAM)"),
    ("unit g*kmh", "GRAM * KILOMETRE_PER_HOUR"),
    ("km/min", "(6 * KILOMETRE) / (4 * MINUTE)"),
    ("ms*min", "(5 * METRE_PER_SECOND) * (2 * MINUTE)"),
    ("min*ms", "(2 * MINUTE) * (5 * METRE_PER_SECOND)"),
    ("unit km/min", "KILOMETRE / MINUTE"),
    ("unit ms*min", "METRE_PER_SECOND * MINUTE"),
    ("mile/h/s", "(3 * MILE_PER_HOUR) / (2 * SECOND)"),
    ("a/s2", "(7 * METRE_PER_SECOND_SQUARED) / (2 * MILLISECOND)"),
    ("km**2", "(3 * KILOMETRE) ** 2"),
    ("km*km", "(3 * KILOMETRE) * (3 * KILOMETRE)"),
    ("kb/s*ms", "(3000 * KILOBIT_PER_SECOND) * (Decimal('0.001') * SECOND)"),
    ("s*Hz", "(2 * SECOND) * (3 * KILOHERTZ)"),
    ("J/N", "(10 * KILOWATT_HOUR) / (4 * NEWTON)"),
    ("EUR/kg", "(6 * EUR) / (2 * KILOGRAM)"),
    ("EUR/g", "(6 * EUR) / (1000 * GRAM)"),
    ("unit EUR/g", "EUR / GRAM"),
    ("EUR/kg*g", "((6 * EUR) / (2 * KILOGRAM)) * (500 * GRAM)"),
    ("USD/kg", "(6 * USD) / (2 * KILOGRAM)"),
    ("USD/kg*kg", "((6 * USD) / (2 * KILOGRAM)) * (4 * KILOGRAM)"),
    ("EUR/kg*kg", "((6 * EUR) / (2 * KILOGRAM)) * (4 * KILOGRAM)"),
    ("kg*USD/kg", "(4 * KILOGRAM) * ((6 * USD) / (2 * KILOGRAM))"),
    ("kg*EUR/kg", "(4 * KILOGRAM) * ((6 * EUR) / (2 * KILOGRAM))"),
]
DECLS = ["declare_momentum()", "declare_jerk()", "declare_area_units()",
         "declare_price()", "derive_price_unit()", "derive_usd_price_unit()"]


def script(root, steps):
    body = PRELUDE % dict(root=root)
    for s in steps:
        if s[0] == "op":
            body += f"ev({s[1]!r}, lambda: {s[2]})\n"
        else:
            body += s[1] + "\n"
    body += "print(json.dumps(OUT))\n"
    return body


def run_script(src):
    env = dict(os.environ)
    r = subprocess.run([sys.executable, "-c", src], capture_output=True,
                       text=True, env=env, timeout=600)
    if r.returncode != 0:
        raise RuntimeError(r.stderr[-800:])
    return json.loads(r.stdout.strip().splitlines()[-1])


def run(job):
    root = os.path.dirname(os.path.dirname(os.path.abspath(__file__)))
    rng = job.rng
    n_hist = 6 if job.tier != "thorough" else 40
    job.bound = (f"{n_hist} random histories over {len(OPS)} operations and "
                 f"{len(DECLS)} declarations, each compared with the "
                 f"canonical history (declare all, then each operation once) "
                 f"in fresh interpreters; {6 if n_hist == 6 else 16} random "
                 f"histories of 90..140 steps over {len(OPS_FIXED) + len(OPS_MODE)} "
                 f"operations of every kind and switches of the default "
                 f"rounding mode, each result compared with the operation "
                 f"alone in a fresh interpreter")
    ops = [("op", l, e) for l, e in OPS]
    decls = [("decl", d) for d in DECLS]
    canonical = run_script(script(root, decls + ops))
    final = {l: v for l, v in canonical}
    pre = run_script(script(root, ops))      # nothing declared
    before = {l: v for l, v in pre}
    for h in range(n_hist):
        # history: some ops attempted early, declarations interleaved, all ops
        # at the end (some repeated)
        early = rng.sample(ops, rng.randint(3, len(ops)))
        ds = decls[:]
        rng.shuffle(ds)
        steps = []
        for d in ds:
            steps += rng.sample(early, min(len(early), rng.randint(1, 5)))
            steps.append(d)
        late = ops[:]
        rng.shuffle(late)
        steps += late + rng.sample(ops, 4)
        res = run_script(script(root, steps))
        # position of the last declaration
        last_decl = max(i for i, s in enumerate(steps) if s[0] == "decl")
        k = 0
        for i, s in enumerate(steps):
            if s[0] != "op":
                continue
            label, got = res[k]
            k += 1
            if i > last_decl:
                job.case("history/final-value", (h, i, label),
                         got == final[label], got, final[label])
            else:
                # before all declarations: either the final value or (if the
                # type is still missing) UndefinedResultError
                ok = got == final[label] or (
                    got == "UndefinedResultError" and
                    before[label] == "UndefinedResultError")
                job.case("history/early-value", (h, i, label), ok, got,
                         final[label])
    general_histories(job, root)


# ---------------------------------------------------------------------------
# general history independence: every operation gives, at any point of any
# history of other operations and switches of the default rounding mode, the
# result it gives as the only operation of a fresh interpreter
PRELUDE2 = r'''
import json, sys
from fractions import Fraction
from decimalfp import Decimal, ROUNDING, set_dflt_rounding_mode
from quantity import *
from quantity.predefined import *
from quantity.money import Money, ExchangeRate, MoneyConverter
sys.path.insert(0, %(root)r)
from runtime import oracle as O
EUR = Money.register_currency("EUR"); USD = Money.register_currency("USD")
JPY = Money.register_currency("JPY")
OUT = []
def ser(r):
    if isinstance(r, Quantity):
        return [type(r).__name__, r.unit.symbol, str(O.F(r.amount))]
    if isinstance(r, ExchangeRate):
        return ["rate", r.unit_currency.symbol, r.term_currency.symbol, str(O.F(r.rate))]
    if isinstance(r, bool) or r is None:
        return r
    if isinstance(r, (tuple, list)):
        return [ser(x) for x in r]
    if isinstance(r, Unit):
        return ["unit", r.symbol]
    return ["number", str(O.F(r))]
def ev(label, fn):
    try:
        OUT.append([label, ser(fn())])
    except Exception as e:
        OUT.append([label, "EXC " + type(e).__name__])
'''

OPS_FIXED = [
    "(Fraction(7, 2) * KILOMETRE).convert(METRE)", "(2 * TONNE).convert(KILOGRAM)",
    "(5 * MILLIMETRE).convert(METRE)", "(1 * METRE).convert(MILLIMETRE)",
    "(1 * ARE).convert(SQUARE_CENTIMETRE)", "(1 * ACRE).convert(SQUARE_METRE)",
    "(1 * DECIMETRE).convert(INCH)", "(1 * DAY).convert(MINUTE)",
    "(36 * KILOMETRE_PER_HOUR).convert(METRE_PER_SECOND)",
    "(10 * METRE_PER_SECOND).convert(KILOMETRE_PER_HOUR)",
    "(2 * TONNE).convert(METRE)", "(5 * KILOHERTZ).convert(SECOND)",
    "(3 * KILOWATT).convert(KILOGRAM)", "(1 * GRAM).convert(SQUARE_METRE)",
    "(1 * METRE) > (5 * MILLIMETRE)", "(5 * MILLIMETRE) < (1 * METRE)",
    "(-5 * KILOGRAM) < (-5 * GRAM)", "(1 * LITRE) == (1 * CUBIC_DECIMETRE)",
    "hash(1 * KILOMETRE) == hash(1000 * METRE)",
    "(1 * METRE) + (1 * MILLIMETRE)", "(1 * MILLIMETRE) + (1 * METRE)",
    "(3 * KILOGRAM) - (500 * GRAM)",
    "(Fraction(5, 2) * GRAM).quantize(1 * GRAM, ROUNDING.ROUND_HALF_UP)",
    "(Decimal('2.5') * GRAM).quantize(1 * GRAM, ROUNDING.ROUND_HALF_EVEN)",
    "(Fraction(13, 10) * GRAM).quantize(-1 * GRAM, ROUNDING.ROUND_HALF_DOWN)",
    "(Decimal('12.345') * KILOGRAM).quantize(Decimal('0.10') * KILOGRAM, ROUNDING.ROUND_FLOOR)",
    "(0 * CELSIUS).convert(KELVIN)", "(32 * FAHRENHEIT).convert(CELSIUS)",
    "(0 * CELSIUS) == (32 * FAHRENHEIT)", "(0 * KELVIN) < (1 * FAHRENHEIT)",
    "Quantity('5 kHz')", "Quantity('2.5 km', METRE)", "Quantity('5 kHz', SECOND)",
    "Quantity('1/3 m²')", "Quantity('7 µs', SECOND)",
    "ExchangeRate(EUR, 1, USD, Decimal('1.25')).inverted()",
    "ExchangeRate(EUR, 100, JPY, Decimal('162.5')).inverted()",
    "ExchangeRate(EUR, 1, JPY, Decimal('162.5')).inverted()",
    "ExchangeRate(EUR, 1, USD, Decimal('1.25')) * ExchangeRate(USD, 1, JPY, 150)",
    "hash(ExchangeRate(USD, 1, EUR, Decimal('0.9683'))) == hash(ExchangeRate(USD, 100, EUR, Decimal('96.83')))",
    "(3 * KILOMETRE) * (2 * MILLIGRAM)" if False else "(3 * KILOMETRE) / (2 * HOUR)",
    "(2 * HOUR) / (5 * KILOMETRE)", "(2 * SECOND) * (3 * KILOHERTZ)",
    "KILOMETRE < MILE", "METRE > MILLIMETRE", "MILLIMETRE < METRE",
]
OPS_MODE = [
    "Fraction(1, 16) * BYTE", "Money(Decimal('2.675'), EUR)", "Money(2.675, EUR)",
    "(Fraction(5, 2) * GRAM).quantize(1 * GRAM)",
    "(Decimal('2.5') * GRAM).quantize(1 * GRAM)",
    "(Fraction(7, 2) * GRAM).quantize(1 * GRAM)",
    "(10 * BIT).allocate([1, 1, 1])", "(1 * BYTE) / 3", "(3 * BIT) * Fraction(1, 2)",
    "Money(Decimal('0.125'), EUR) + Money(Decimal('0.125'), EUR)",
    "(5 * EUR) * ExchangeRate(EUR, 1, USD, Decimal('1.2345'))",
    "round(Decimal('2.5') * KILOGRAM)", "ExchangeRate(EUR, 3, USD, Decimal('1.0000005'))",
]
MODES2 = ["ROUND_HALF_EVEN", "ROUND_CEILING", "ROUND_HALF_UP"]


def _script2(root, steps):
    body = PRELUDE2 % dict(root=root)
    for kind, x in steps:
        if kind == "mode":
            body += f"set_dflt_rounding_mode(ROUNDING.{x})\n"
        else:
            body += f"ev({x!r}, lambda: {x})\n"
    body += "print(json.dumps(OUT))\n"
    return body


def general_histories(job, root):
    rng = job.rng
    quick = job.tier != "thorough"
    ops = OPS_FIXED + OPS_MODE
    # canonical value of every operation alone in a fresh interpreter, per mode
    canon = {}
    from concurrent.futures import ThreadPoolExecutor
    work = [(m, o) for m in MODES2 for o in ops
            if o in OPS_MODE or m == MODES2[0]]

    def one(mo):
        m, o = mo
        return mo, run_script(_script2(root, [("mode", m), ("op", o)]))[0][1]
    with ThreadPoolExecutor(max_workers=12) as tpe:
        for (m, o), v in tpe.map(one, work):
            canon[(m, o)] = v
    n_hist = 6 if quick else 16
    for h in range(n_hist):
        steps, mode = [], MODES2[0]
        modes_at = []
        for _ in range(90 if quick else 140):
            if rng.random() < 0.12:
                mode = rng.choice(MODES2)
                steps.append(("mode", mode))
            else:
                steps.append(("op", rng.choice(ops)))
                modes_at.append(mode)
        res = run_script(_script2(root, steps))
        for (label, got), m in zip(res, modes_at):
            exp = canon[(m if label in OPS_MODE else MODES2[0], label)]
            job.case("history/same-as-in-a-fresh-interpreter", (h, label, m),
                     got == exp, got, exp)
