#!/bin/sh
# setup: nothing is built or installed; verify the tools the checks need are present.
set -e
cd "$(dirname "$0")"
python3-vt -c "import z3, sys; assert sys.version_info[:2] >= (3, 9); print('z3', z3.get_version_string())"
/venv/bin/python -c "import decimalfp; print('decimalfp ok')"
test -x /usr/bin/cvc5 && echo "cvc5 cli ok" || echo "cvc5 cli missing (optional)"
test -d /repo/src/quantity
echo setup ok
