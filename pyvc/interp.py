"""L1 -- symbolic interpreter for the PyQ subset over the real AST.

One `Interp` runs one path (decision prefix) of one function; exceptions of
the interpreted program are python exceptions `PyExc`, control flow signals are
python exceptions as well.  Anything outside the subset raises `Unsupported`,
which makes the obligation *undecided* (never failed).
"""
from __future__ import annotations

import ast
from typing import Any, Dict, Iterator, List, Optional, Sequence, Tuple

import z3

from . import model as M
from .extract import ClassInfo, FuncInfo, Package, body_of
from .sym import register_fresh
from .sym import (NONE, NOTIMPL, MODE_ID, Obj, Path, T_DEC, T_FLOAT, T_FRAC,
                  T_INT, T_STDDEC, TBool, TInt, TObj, TOpt, TRat, TStr,
                  Unsupported, V, VBool, VClass, VDate, VDictLit, VExc, VFunc,
                  VGen, VInt, VList, VNone, VNotImpl, VObj, VOpaque, VRat,
                  VStr, VTuple, VUser, pack, sorts_of, suffixes_of, unpack,
                  vbool, vint)

MAX_DEPTH = 40


class PyExc(Exception):
    def __init__(self, exc: VExc):
        super().__init__(exc.cls)
        self.exc = exc


class ReturnSig(Exception):
    def __init__(self, value: V):
        self.value = value


class BreakSig(Exception):
    pass


class ContinueSig(Exception):
    pass


class StopPath(Exception):
    """Path ends without outcome (e.g. callee contract has no matching case)."""


# exception class lattice ----------------------------------------------------
EXC_BASES = {
    "BaseException": None, "Exception": "BaseException",
    "ArithmeticError": "Exception", "LookupError": "Exception",
    "ValueError": "Exception", "TypeError": "Exception",
    "AssertionError": "Exception", "AttributeError": "Exception",
    "KeyError": "LookupError", "IndexError": "LookupError",
    "ZeroDivisionError": "ArithmeticError", "OverflowError": "ArithmeticError",
    "StopIteration": "Exception", "NotImplementedError": "Exception",
    "QuantityError": "ValueError",
    "IncompatibleUnitsError": "QuantityError",
    "UndefinedResultError": "QuantityError",
    "UnitConversionError": "QuantityError",
}


def exc_isa(cls: str, base: str) -> bool:
    c: Optional[str] = cls
    while c is not None:
        if c == base:
            return True
        c = EXC_BASES.get(c)
    return False


NUM_CLASSES = {"Rational", "Real", "Integral", "int", "Decimal", "Fraction",
               "float", "StdLibDecimal", "Number"}

EXTERNAL_CLASSES = {
    ("decimalfp", "Decimal"): "Decimal", ("fractions", "Fraction"): "Fraction",
    ("numbers", "Rational"): "Rational", ("numbers", "Real"): "Real",
    ("numbers", "Integral"): "Integral", ("decimal", "Decimal"): "StdLibDecimal",
    ("decimalfp", "ROUNDING"): "ROUNDING", ("datetime", "date"): "date",
    ("typing", "Sized"): "Sized", ("typing", "Mapping"): "Mapping",
    ("typing", "Iterable"): "Iterable", ("types", "MappingProxyType"):
        "MappingProxyType",
}
EXTERNAL_FUNCS = {
    ("decimalfp", "get_dflt_rounding_mode"): "get_dflt_rounding_mode",
    ("typing", "cast"): "cast", ("functools", "reduce"): "reduce",
    ("itertools", "chain"): "chain", ("itertools", "groupby"): "groupby",
    ("operator", "mul"): "operator.mul", ("builtins", "sum"): "builtin_sum",
}
BUILTIN_FUNCS = {"isinstance", "len", "abs", "divmod", "tuple", "list", "iter",
                 "next", "sorted", "map", "range", "enumerate", "zip",
                 "reversed", "hash", "type", "int", "str", "min", "max",
                 "round", "all", "any", "super", "format", "repr", "id",
                 "float", "object", "dict", "bool", "getattr", "hasattr",
                 "print"}


class VSuper(V):
    def __init__(self, cls: ClassInfo, obj: V):
        self.cls = cls
        self.obj = obj


class Frame:
    def __init__(self, module: str, cls: Optional[ClassInfo], key: str,
                 env: Dict[str, V], closure: Optional["Frame"] = None):
        self.module = module
        self.cls = cls
        self.key = key
        self.env = env
        self.closure = closure
        self.first_arg: Optional[V] = None


class Interp:
    def __init__(self, pkg: Package, path: Path, summaries=None, top_key=None,
                 models=None):
        self.pkg = pkg
        self.path = path
        self.summaries = summaries or {}
        self.top_key = top_key
        self.depth = 0
        self.calls: List[str] = []
        from . import builtins_model
        self.bm = builtins_model.BuiltinModel(self)
        self.inline_only: set = set()

    # ------------------------------------------------------------------ heap
    @property
    def heap(self):
        return self.path.heap

    def alloc(self, klass: str, base: str = "o") -> VObj:
        o = self.path.fresh(base, Obj)
        register_fresh(o)
        self.path.assume(z3.Not(self.heap.get("$alloc", o)))
        # read-over-write simplification uses the distinctness of fresh
        # objects syntactically; state it for the solver as well
        earlier = self.path.__dict__.setdefault("_fresh_objs", [])
        if earlier:
            self.path.assume(z3.And(*[o != f for f in earlier]))
        earlier.append(o)
        self.heap.set("$alloc", o, z3.BoolVal(True))
        return VObj(o, klass)

    def raise_(self, cls: str, *args: V):
        raise PyExc(VExc(cls, list(args)))

    # --------------------------------------------------------------- calling
    def call_user(self, fi: FuncInfo, args: List[V], kwargs: Dict[str, V],
                  closure: Optional[Frame] = None) -> V:
        if fi.key in self.summaries and (self.depth > 0 or fi.key != self.top_key) \
                and fi.key not in self.inline_only:
            return self.summaries[fi.key].apply(self, args, kwargs)
        return self.run_function(fi, args, kwargs, closure)

    def bind_params(self, fn, args: List[V], kwargs: Dict[str, V],
                    frame: Frame, def_frame: Frame) -> None:
        a = fn.args
        params = [p.arg for p in a.posonlyargs + a.args]
        env = frame.env
        nargs = len(args)
        if nargs > len(params) and a.vararg is None:
            self.raise_("TypeError")
        for name, v in zip(params, args):
            env[name] = v
        if a.vararg is not None:
            env[a.vararg.arg] = VTuple(list(args[len(params):]))
        kw = dict(kwargs)
        defaults = a.defaults
        first_default = len(params) - len(defaults)
        for i, name in enumerate(params):
            if i < nargs:
                if name in kw:
                    self.raise_("TypeError")
                continue
            if name in kw:
                env[name] = kw.pop(name)
            elif i >= first_default:
                env[name] = self.eval(defaults[i - first_default], def_frame)
            else:
                self.raise_("TypeError")
        for p, d in zip(a.kwonlyargs, a.kw_defaults):
            if p.arg in kw:
                env[p.arg] = kw.pop(p.arg)
            elif d is not None:
                env[p.arg] = self.eval(d, def_frame)
            else:
                self.raise_("TypeError")
        if a.kwarg is not None:
            env[a.kwarg.arg] = VDictLit({k: v for k, v in kw.items()})
        elif kw:
            self.raise_("TypeError")

    def run_function(self, fi: FuncInfo, args: List[V], kwargs: Dict[str, V],
                     closure: Optional[Frame] = None) -> V:
        if self.depth >= MAX_DEPTH:
            raise Unsupported("call depth")
        frame = Frame(fi.module, fi.cls, fi.key, {}, closure)
        def_frame = Frame(fi.module, fi.cls, fi.key + "<defaults>", {}, closure)
        self.bind_params(fi.node, args, kwargs, frame, def_frame)
        if args:
            frame.first_arg = args[0]
        self.depth += 1
        self.calls.append(fi.key)
        try:
            self.exec_block(body_of(fi), frame)
        except ReturnSig as r:
            return r.value
        finally:
            self.depth -= 1
        return NONE

    def call_lambda(self, lam: ast.Lambda, closure: Frame, args: List[V]) -> V:
        frame = Frame(closure.module, closure.cls, closure.key + "<lambda>",
                      {}, closure)
        self.bind_params(lam, args, {}, frame, closure)
        return self.eval(lam.body, frame)

    def call(self, f: V, args: List[V], kwargs: Optional[Dict[str, V]] = None) -> V:
        kwargs = kwargs or {}
        if isinstance(f, VUser):
            a = ([f.bound] if f.bound is not None else []) + list(args)
            if isinstance(f.info, ast.Lambda):
                return self.call_lambda(f.info, f.closure, a)
            return self.call_user(f.info, a, kwargs, f.closure)
        if isinstance(f, VFunc):
            return self.bm.call_builtin(f, args, kwargs)
        if isinstance(f, VClass):
            return self.bm.construct(f, args, kwargs)
        if isinstance(f, VObj):
            if f.klass in ("QtyCls",):
                return self.instantiate_qty(f, args, kwargs)
            return self.bm.call_object(f, args, kwargs)
        raise Unsupported(f"call of {f!r}")

    def instantiate_qty(self, cls: VObj, args, kwargs) -> V:
        """type.__call__(cls, ...) for a quantity class: __new__ (the class
        defines no __init__, object.__init__ ignores the arguments)."""
        fi = self.pkg.func("quantity:Quantity.__new__")
        return self.call_user(fi, [cls] + list(args), kwargs)

    # ------------------------------------------------------------ statements
    def exec_block(self, stmts: Sequence[ast.stmt], frame: Frame) -> None:
        for st in stmts:
            self.exec_stmt(st, frame)

    def exec_stmt(self, st: ast.stmt, frame: Frame) -> None:
        m = getattr(self, "st_" + type(st).__name__, None)
        if m is None:
            raise Unsupported(f"statement {type(st).__name__} line {st.lineno}")
        m(st, frame)

    def st_Pass(self, st, frame):
        pass

    def st_Expr(self, st, frame):
        if isinstance(st.value, ast.Constant):
            return
        self.eval(st.value, frame)

    def st_Return(self, st, frame):
        raise ReturnSig(self.eval(st.value, frame) if st.value else NONE)

    def st_Break(self, st, frame):
        raise BreakSig()

    def st_Continue(self, st, frame):
        raise ContinueSig()

    def st_Assign(self, st, frame):
        v = self.eval(st.value, frame)
        v = self.materialize_container(v, st.targets, frame)
        for tg in st.targets:
            self.assign(tg, v, frame)

    def materialize_container(self, v: V, targets, frame) -> V:
        """An empty dict / list literal stored into a field that holds a heap
        container becomes a fresh heap container of the field's kind (so that
        chained assignments `d = self._map = {}` alias one object)."""
        empty = (isinstance(v, VDictLit) and not v.items) or \
            (isinstance(v, VList) and not v.items)
        if not empty:
            return v
        for tg in targets:
            if not isinstance(tg, ast.Attribute):
                continue
            base = self.eval(tg.value, frame)
            if not isinstance(base, VObj):
                continue
            ty = self.heap.schema.field_type(self.schema_klass(base.klass),
                                             tg.attr)
            if isinstance(ty, TObj) and ty.klass.startswith("Dict:") and \
                    isinstance(v, VDictLit):
                return self.bm.new_dict(ty.klass.split(":", 1)[1])
            if isinstance(ty, TObj) and ty.klass.startswith("List:") and \
                    isinstance(v, VList):
                return self.bm.new_list(ty.klass.split(":", 1)[1], [])
        return v

    def st_AnnAssign(self, st, frame):
        if st.value is None:
            return
        v = self.eval(st.value, frame)
        v = self.materialize_container(v, [st.target], frame)
        self.assign(st.target, v, frame)

    def st_AugAssign(self, st, frame):
        tg = st.target
        if isinstance(tg, ast.Name):
            cur = self.lookup(tg.id, frame)
            self.assign(tg, self.binop(st.op, cur, self.eval(st.value, frame),
                                       inplace=True), frame)
        elif isinstance(tg, ast.Attribute):
            obj = self.eval(tg.value, frame)
            cur = self.getattr(obj, tg.attr, frame)
            new = self.binop(st.op, cur, self.eval(st.value, frame))
            self.setattr(obj, tg.attr, new, frame)
        elif isinstance(tg, ast.Subscript):
            obj = self.eval(tg.value, frame)
            idx = self.eval(tg.slice, frame)
            cur = self.getitem(obj, idx)
            new = self.binop(st.op, cur, self.eval(st.value, frame))
            self.setitem(obj, idx, new)
        else:
            raise Unsupported("augassign target")

    def st_If(self, st, frame):
        if self.truth(self.eval(st.test, frame)):
            self.exec_block(st.body, frame)
        else:
            self.exec_block(st.orelse, frame)

    def st_Assert(self, st, frame):
        # kept by extraction: raises AssertionError unless it holds
        if not self.truth(self.eval(st.test, frame)):
            if st.msg is not None:
                self.eval(st.msg, frame)
            self.raise_("AssertionError")

    def st_Raise(self, st, frame):
        if st.exc is None:
            cur = frame.env.get("$current_exc")
            if isinstance(cur, VExc):
                raise PyExc(cur)
            raise Unsupported("bare raise outside handler")
        v = self.eval(st.exc, frame)
        if isinstance(v, VClass):
            v = self.bm.construct(v, [], {})
        if not isinstance(v, VExc):
            raise Unsupported(f"raise of {v!r}")
        raise PyExc(v)

    def st_Try(self, st, frame):
        if st.finalbody:
            raise Unsupported("try/finally")
        try:
            self.exec_block(st.body, frame)
        except PyExc as e:
            for h in st.handlers:
                if self.handler_matches(h, e.exc, frame):
                    saved = frame.env.get("$current_exc")
                    frame.env["$current_exc"] = e.exc
                    if h.name:
                        frame.env[h.name] = e.exc
                    try:
                        self.exec_block(h.body, frame)
                    finally:
                        if saved is None:
                            frame.env.pop("$current_exc", None)
                        else:
                            frame.env["$current_exc"] = saved
                    return
            raise
        else:
            self.exec_block(st.orelse, frame)

    def handler_matches(self, h: ast.ExceptHandler, exc: VExc, frame) -> bool:
        if h.type is None:
            return True
        t = self.eval(h.type, frame)
        names = []
        if isinstance(t, VTuple):
            names = [i.name for i in t.items if isinstance(i, VClass)]
        elif isinstance(t, VClass):
            names = [t.name]
        return any(exc_isa(exc.cls, n) for n in names)

    def st_For(self, st, frame):
        it = self.iterate(self.eval(st.iter, frame))
        broke = False
        for item in it:
            self.assign(st.target, item, frame)
            try:
                self.exec_block(st.body, frame)
            except BreakSig:
                broke = True
                break
            except ContinueSig:
                continue
        if not broke:
            self.exec_block(st.orelse, frame)

    def loop_spec(self, st, frame):
        specs = getattr(self, "loop_specs", None)
        if not specs:
            return None
        base = frame.key.split("<")[0]
        try:
            fi = self.pkg.func(base)
        except Exception:
            return None
        loops = [n for n in ast.walk(fi.node) if isinstance(n, (ast.While, ast.For))]
        loops.sort(key=lambda n: (n.lineno, n.col_offset))
        for i, n in enumerate(loops):
            if n is st:
                return specs.get((base, i))
        return None

    def st_While(self, st, frame):
        spec = self.loop_spec(st, frame)
        if spec is not None:
            return self.while_by_invariant(st, frame, spec)
        n = 0
        while self.truth(self.eval(st.test, frame)):
            n += 1
            if n > self.bm.while_bound:
                # unwinding assertion: the bound must be sufficient
                raise Unsupported(f"while loop exceeds unwinding bound "
                                  f"{self.bm.while_bound} (line {st.lineno})")
            try:
                self.exec_block(st.body, frame)
            except BreakSig:
                return
            except ContinueSig:
                continue
        self.exec_block(st.orelse, frame)

    def while_by_invariant(self, st, frame, spec):
        """cut the loop at its head: invariant on entry (obligation), havoc
        the modified variables, assume the invariant; one arbitrary iteration
        must re-establish it (obligation, then the path stops); the exit path
        continues with invariant and negated condition"""
        tag = f"loop:{frame.key.split(':')[-1]}"
        self.path.obligation(f"{tag}/invariant-on-entry",
                             spec.invariant(self, frame.env),
                             "loop invariant holds on entry")
        for name in spec.modifies:
            frame.env[name] = spec.havoc(self, name, frame.env[name])
        self.path.assume(spec.invariant(self, frame.env))
        self.path.ledger.add("A6: loop cut at its invariant (termination "
                             "not verified)")
        if self.truth(self.eval(st.test, frame)):
            self.exec_block(st.body, frame)
            self.path.obligation(f"{tag}/invariant-preserved",
                                 spec.invariant(self, frame.env),
                                 "loop invariant is preserved by the body")
            raise StopPath()
        self.exec_block(st.orelse, frame)

    def st_Delete(self, st, frame):
        for tg in st.targets:
            if isinstance(tg, ast.Name):
                frame.env.pop(tg.id, None)
            else:
                raise Unsupported("del of non-name")

    def st_Global(self, st, frame):
        raise Unsupported("global statement")

    # ------------------------------------------------------------ assignment
    def assign(self, tg: ast.expr, v: V, frame: Frame) -> None:
        if isinstance(tg, ast.Name):
            frame.env[tg.id] = v
        elif isinstance(tg, (ast.Tuple, ast.List)):
            items = list(self.iterate(v))
            if len(items) != len(tg.elts):
                self.raise_("ValueError")
            for t, i in zip(tg.elts, items):
                self.assign(t, i, frame)
        elif isinstance(tg, ast.Attribute):
            self.setattr(self.eval(tg.value, frame), tg.attr, v, frame)
        elif isinstance(tg, ast.Subscript):
            self.setitem(self.eval(tg.value, frame),
                         self.eval(tg.slice, frame), v)
        else:
            raise Unsupported(f"assign target {type(tg).__name__}")

    # ----------------------------------------------------------- expressions
    def eval(self, e: ast.expr, frame: Frame) -> V:
        m = getattr(self, "ev_" + type(e).__name__, None)
        if m is None:
            raise Unsupported(f"expression {type(e).__name__} line {e.lineno}")
        return m(e, frame)

    def ev_Constant(self, e, frame):
        c = e.value
        if c is None:
            return NONE
        if isinstance(c, bool):
            return vbool(c)
        if isinstance(c, int):
            return vint(c)
        if isinstance(c, str):
            return VStr(z3.StringVal(c))
        if isinstance(c, float):
            from fractions import Fraction
            f = Fraction(c)
            return VRat(z3.RealVal(f"{f.numerator}/{f.denominator}"),
                        z3.IntVal(T_FLOAT))
        if c is Ellipsis:
            return VOpaque("...")
        raise Unsupported(f"constant {c!r}")

    def ev_Name(self, e, frame):
        return self.lookup(e.id, frame)

    def lookup(self, name: str, frame: Frame) -> V:
        f: Optional[Frame] = frame
        while f is not None:
            if name in f.env:
                return f.env[name]
            f = f.closure
        return self.module_name(frame.module, name)

    def module_name(self, module: str, name: str) -> V:
        key = (module, name)
        if key in M.GLOBAL_VARS:
            return M.GLOBAL_VARS[key]
        mi = self.pkg.modules.get(module)
        if mi is not None:
            if name in mi.funcs:
                return VUser(mi.funcs[name], module=module)
            if name in mi.classes:
                return self.class_value(name)
            if name in mi.imports:
                src, orig = mi.imports[name]
                if src in self.pkg.modules:
                    if orig is None:
                        return VClass("module:" + src)
                    return self.module_name(src, orig)
                if orig is None:
                    return VClass("module:" + src)
                if (src, orig) in EXTERNAL_CLASSES:
                    return VClass(EXTERNAL_CLASSES[(src, orig)])
                if (src, orig) in EXTERNAL_FUNCS:
                    return VFunc(EXTERNAL_FUNCS[(src, orig)])
                if (src, orig) == ("decimalfp", "ONE"):
                    return VRat(z3.RealVal(1), z3.IntVal(T_DEC))
                if src == "typing" or src == "typing_extensions":
                    return VOpaque("typing." + orig)
                if src == "abc":
                    return VOpaque("abc." + orig)
                raise Unsupported(f"external name {src}.{orig}")
            if name in mi.assigns:
                fr = Frame(module, None, module + ":<module>", {})
                return self.eval(mi.assigns[name], fr)
        if name in BUILTIN_FUNCS:
            return VFunc(name)
        if name in EXC_BASES:
            return VClass(name)
        if name in ("NotImplemented",):
            return NOTIMPL
        if name in ("True", "False"):
            return vbool(name == "True")
        raise Unsupported(f"unknown name {name} in {module}")

    def class_value(self, name: str) -> V:
        if name == "Quantity":
            return VObj(M.C_QUANTITY, "QtyCls")
        if name == "Money":
            return VObj(M.C_MONEY, "QtyCls")
        return VClass(name)

    def ev_Attribute(self, e, frame):
        return self.getattr(self.eval(e.value, frame), e.attr, frame)

    def ev_Tuple(self, e, frame):
        return VTuple(self.eval_elts(e.elts, frame))

    def ev_List(self, e, frame):
        return VList(self.eval_elts(e.elts, frame))

    def eval_elts(self, elts, frame) -> List[V]:
        out: List[V] = []
        for x in elts:
            if isinstance(x, ast.Starred):
                out.extend(self.iterate(self.eval(x.value, frame)))
            else:
                out.append(self.eval(x, frame))
        return out

    def ev_Dict(self, e, frame):
        d: Dict[Any, V] = {}
        for k, v in zip(e.keys, e.values):
            kv = self.eval(k, frame)
            d[self.bm.lit_key(kv)] = self.eval(v, frame)
        return VDictLit(d)

    def ev_IfExp(self, e, frame):
        if self.truth(self.eval(e.test, frame)):
            return self.eval(e.body, frame)
        return self.eval(e.orelse, frame)

    def ev_BoolOp(self, e, frame):
        is_and = isinstance(e.op, ast.And)
        v: V = NONE
        for sub in e.values:
            v = self.eval(sub, frame)
            t = self.truth(v)
            if is_and and not t:
                return v
            if not is_and and t:
                return v
        return v

    def ev_UnaryOp(self, e, frame):
        v = self.eval(e.operand, frame)
        if isinstance(e.op, ast.Not):
            return vbool(not self.truth(v))
        if isinstance(e.op, ast.USub):
            if isinstance(v, VInt):
                return VInt(-v.t)
            if isinstance(v, VRat):
                return VRat(-v.t, v.tag)
            if isinstance(v, VObj):
                return self.call_method(v, "__neg__", [], frame)
        if isinstance(e.op, ast.UAdd):
            if isinstance(v, (VInt, VRat)):
                return v
            if isinstance(v, VObj):
                return self.call_method(v, "__pos__", [], frame)
        raise Unsupported(f"unary {type(e.op).__name__} on {v!r}")

    def ev_BinOp(self, e, frame):
        a = self.eval(e.left, frame)
        b = self.eval(e.right, frame)
        return self.binop(e.op, a, b)

    def ev_Compare(self, e, frame):
        left = self.eval(e.left, frame)
        res: V = vbool(True)
        for op, rhs in zip(e.ops, e.comparators):
            right = self.eval(rhs, frame)
            res = self.compare(op, left, right)
            if len(e.ops) > 1 and not self.truth(res):
                return res
            left = right
        return res

    def ev_Call(self, e, frame):
        # typing.cast(T, x) -> x without evaluating T
        if isinstance(e.func, ast.Name) and e.func.id == "cast" and \
                len(e.args) == 2:
            fv = self.lookup("cast", frame)
            if isinstance(fv, VFunc) and fv.name == "cast":
                return self.eval(e.args[1], frame)
        if isinstance(e.func, ast.Name) and e.func.id == "super" and not e.args:
            fv = self.lookup("super", frame)
            if isinstance(fv, VFunc) and fv.name == "super":
                if frame.cls is None or frame.first_arg is None:
                    raise Unsupported("super() outside method")
                return VSuper(frame.cls, frame.first_arg)
        f = self.eval(e.func, frame)
        args = self.eval_elts(e.args, frame)
        kwargs: Dict[str, V] = {}
        for kw in e.keywords:
            if kw.arg is None:
                d = self.eval(kw.value, frame)
                if isinstance(d, VDictLit):
                    for k, v in d.items.items():
                        kwargs[k] = v
                else:
                    raise Unsupported("**kwargs of non-literal dict")
            else:
                kwargs[kw.arg] = self.eval(kw.value, frame)
        return self.call(f, args, kwargs)

    def ev_Lambda(self, e, frame):
        return VUser(e, closure=frame, module=frame.module)

    def ev_Subscript(self, e, frame):
        base = self.eval(e.value, frame)
        if isinstance(base, VClass) or (isinstance(base, VObj) and
                                        isinstance(e.slice, ast.Constant) and
                                        isinstance(e.slice.value, str) and
                                        base.klass == "QtyCls"):
            # generic alias  Term['Unit'] / DefinedItemRegistry['QuantityMeta']
            return base
        if isinstance(base, VOpaque):
            return base
        if isinstance(e.slice, ast.Slice):
            lo = self.eval(e.slice.lower, frame) if e.slice.lower else None
            hi = self.eval(e.slice.upper, frame) if e.slice.upper else None
            if e.slice.step is not None:
                raise Unsupported("slice step")
            return self.bm.getslice(base, lo, hi)
        return self.getitem(base, self.eval(e.slice, frame))

    def ev_JoinedStr(self, e, frame):
        parts = []
        for p in e.values:
            if isinstance(p, ast.Constant):
                parts.append(VStr(z3.StringVal(p.value)))
            else:
                assert isinstance(p, ast.FormattedValue)
                v = self.eval(p.value, frame)
                spec = None
                if p.format_spec is not None:
                    spec = self.eval(p.format_spec, frame)
                parts.append(self.bm.format_value(v, p.conversion, spec))
        if len(parts) == 1:
            return parts[0]
        # keep the structure of the formatted string (used by the model of
        # date.fromisoformat for 'YYYY-MM-DD' strings built from integers)
        tmpl = []
        for p in parts:
            if isinstance(p, VStr) and p.tmpl is not None:
                tmpl.extend(p.tmpl)
            elif isinstance(p, VStr):
                sp = z3.simplify(p.t)
                tmpl.append(("lit", sp.as_string()) if z3.is_string_value(sp)
                            else ("str", p.t))
            else:
                tmpl.append(("?", None))
        if all(isinstance(p, VStr) for p in parts):
            return VStr(z3.Concat(*[p.t for p in parts]), tmpl)
        r = self.bm.fresh_str("fstr")
        return VStr(r.t, tmpl)

    def ev_ListComp(self, e, frame):
        return VList(list(self.comp_iter(e.elt, e.generators, frame)))

    def ev_GeneratorExp(self, e, frame):
        return VGen(lambda: self.comp_iter(e.elt, e.generators, frame))

    def comp_iter(self, elt, gens, frame) -> Iterator[V]:
        inner = Frame(frame.module, frame.cls, frame.key + "<comp>", {}, frame)
        inner.first_arg = frame.first_arg

        def rec(i: int) -> Iterator[V]:
            if i == len(gens):
                yield self.eval(elt, inner)
                return
            g = gens[i]
            for item in self.iterate(self.eval(g.iter, inner if i else frame)):
                self.assign(g.target, item, inner)
                if all(self.truth(self.eval(c, inner)) for c in g.ifs):
                    yield from rec(i + 1)
        return rec(0)

    # ------------------------------------------------------------- truthiness
    def truth(self, v: V) -> bool:
        if isinstance(v, VBool):
            return self.path.branch(v.t)
        if isinstance(v, VNone):
            return False
        if isinstance(v, VNotImpl):
            return True
        if isinstance(v, VInt):
            return self.path.branch(v.t != 0)
        if isinstance(v, VRat):
            return self.path.branch(v.t != 0)
        if isinstance(v, VStr):
            return self.path.branch(z3.Length(v.t) > 0)
        if isinstance(v, (VTuple, VList)):
            return len(v.items) > 0
        if isinstance(v, VDictLit):
            return len(v.items) > 0
        if isinstance(v, VObj):
            return self.bm.obj_truth(v)
        if isinstance(v, (VClass, VFunc, VUser, VDate, VExc)):
            return True
        raise Unsupported(f"truth of {v!r}")

    # ------------------------------------------------------------ attributes
    def klass_info(self, klass: str) -> Optional[ClassInfo]:
        if klass in M.KLASS_PY:
            mod, cn = M.KLASS_PY[klass]
            return self.pkg.modules[mod].classes[cn]
        return None

    def dyn_klass(self, v: VObj, name: str) -> str:
        """Resolve dynamic subclass when `name` is overridden there."""
        if v.klass == "Unit":
            ci = self.klass_info("Currency")
            if ci is not None and (name in ci.funcs or name in ci.aliases):
                if self.path.branch(self.heap.get("Unit.$is_currency", v.t)):
                    return "Currency"
        if v.klass == "QtyCls":
            ci = self.klass_info("MoneyCls")
            if ci is not None and (name in ci.funcs or name in ci.aliases):
                if self.path.branch(v.t == M.C_MONEY):
                    return "MoneyCls"
        return v.klass

    def getattr(self, v: V, name: str, frame: Optional[Frame] = None) -> V:
        if isinstance(v, VObj):
            return self.obj_getattr(v, name)
        if isinstance(v, VSuper):
            mro = self.pkg.mro(v.cls)
            for c in mro[1:]:
                n = c.aliases.get(name, name)
                if n in c.funcs:
                    return VUser(c.funcs[n], bound=v.obj, module=c.module)
            return self.bm.super_attr(v, name)
        return self.bm.value_attr(v, name)

    def obj_getattr(self, v: VObj, name: str) -> V:
        klass = self.dyn_klass(v, name)
        ci = self.klass_info(klass)
        if ci is not None:
            hit = self.pkg.lookup(ci, name)
            if hit is not None:
                if hit[0] == "func":
                    fi: FuncInfo = hit[1]
                    if fi.is_property:
                        return self.call_user(fi, [v], {})
                    if fi.is_static:
                        return VUser(fi, module=fi.module)
                    return VUser(fi, bound=v, module=fi.module)
                _, owner, expr = hit
                cv = M.CLASS_VARS.get((owner.name, name))
                if cv is not None:
                    return cv
                if not self.is_annotation_only(owner, name):
                    fr = Frame(owner.module, owner, owner.name + ":<class>", {})
                    return self.eval(expr, fr)
        # instance attributes of quantity instances defined on Quantity/Money
        if v.klass == "Qty":
            mci = self.pkg.modules["quantity.money"].classes.get("Money")
            if mci is not None and name in mci.funcs and \
                    mci.funcs[name].is_property:
                return self.call_user(mci.funcs[name], [v], {})
        return self.read_field(v, name)

    def is_annotation_only(self, owner: ClassInfo, name: str) -> bool:
        return False

    def schema_klass(self, klass: str) -> str:
        if klass in ("Currency",):
            return "Unit"
        if klass == "TypeRegistry":
            return "Registry"
        if klass == "MoneyCls":
            return "QtyCls"
        if klass.startswith("List:"):
            return "List"
        return klass

    def read_field(self, v: VObj, name: str) -> V:
        sk = self.schema_klass(v.klass)
        ty = self.heap.schema.field_type(sk, name)
        if ty is None:
            return self.bm.obj_attr_fallback(v, name)
        arr = self.heap.schema.array_name(sk, name)
        if (sk, name) in self.heap.schema.maybe_unset:
            if self.path.branch(self.heap.get(arr + "#unset", v.t)):
                # class attributes are found through the MRO
                if sk == "QtyCls" and self.path.branch(v.t != M.C_QUANTITY):
                    return self.read_field(VObj(M.C_QUANTITY, "QtyCls"), name)
                self.raise_("AttributeError")
        res = self.heap.read(arr, ty, v.t, self.path)
        if v.klass == "TypeRegistry" and name == "_item_list" and \
                isinstance(res, VObj):
            res = VObj(res.t, "List:cls_buckets")
        if sk == "MoneyConverter" and name == "_type_of_validity" and \
                isinstance(res, VInt):
            # the field holds a type object, stored as a code
            for cname, code in M.TYPE_CODES.items():
                if self.path.branch(res.t == code):
                    return VClass(cname)
            raise Unsupported("unknown type code")
        return res

    def setattr(self, obj: V, name: str, val: V, frame=None) -> None:
        if not isinstance(obj, VObj):
            raise Unsupported(f"setattr on {obj!r}")
        sk = self.schema_klass(obj.klass)
        ty = self.heap.schema.field_type(sk, name)
        if ty is None:
            return self.bm.obj_setattr_fallback(obj, name, val)
        arr = self.heap.schema.array_name(sk, name)
        self.heap.write(arr, ty, obj.t, self.bm.coerce_for_field(ty, val))
        if (sk, name) in self.heap.schema.maybe_unset:
            self.heap.set(arr + "#unset", obj.t, z3.BoolVal(False))
        hook = M.FIELD_HOOKS.get((sk, name))
        if hook is not None:
            hook(self, obj, val)

    def call_method(self, v: V, name: str, args: List[V], frame=None,
                    kwargs=None) -> V:
        return self.call(self.getattr(v, name, frame), args, kwargs or {})

    def has_method(self, v: V, name: str) -> bool:
        if isinstance(v, VObj):
            ci = self.klass_info(self.schema_klass_py(v))
            if ci is None:
                return False
            hit = self.pkg.lookup(ci, name)
            return hit is not None and hit[0] == "func"
        return False

    def schema_klass_py(self, v: VObj) -> str:
        return v.klass

    # ------------------------------------------------------------- operators
    BINOP_NAMES = {ast.Add: "add", ast.Sub: "sub", ast.Mult: "mul",
                   ast.Div: "truediv", ast.FloorDiv: "floordiv",
                   ast.Mod: "mod", ast.Pow: "pow", ast.LShift: "lshift"}

    def binop(self, op: ast.operator, a: V, b: V, inplace: bool = False) -> V:
        name = self.BINOP_NAMES.get(type(op))
        if name is None:
            raise Unsupported(f"operator {type(op).__name__}")
        num_a = isinstance(a, (VInt, VRat))
        num_b = isinstance(b, (VInt, VRat))
        if num_a and num_b:
            return self.bm.num_binop(name, a, b)
        if isinstance(a, VStr) or isinstance(b, VStr):
            return self.bm.str_binop(name, a, b)
        if isinstance(a, (VTuple, VList)) and isinstance(b, (VTuple, VList)) \
                and name == "add":
            if isinstance(a, VList) and inplace:
                a.items.extend(b.items)
                return a
            return type(a)(a.items + b.items)
        res: V = NOTIMPL
        if isinstance(a, VObj) and self.has_method(a, f"__{name}__"):
            res = self.call_method(a, f"__{name}__", [b])
        if isinstance(res, VNotImpl) and isinstance(b, VObj) and \
                self.has_method(b, f"__r{name}__"):
            res = self.call_method(b, f"__r{name}__", [a])
        if isinstance(res, VNotImpl):
            self.raise_("TypeError")
        return res

    CMP_NAMES = {ast.Lt: ("lt", "gt"), ast.LtE: ("le", "ge"),
                 ast.Gt: ("gt", "lt"), ast.GtE: ("ge", "le")}

    def compare(self, op: ast.cmpop, a: V, b: V) -> V:
        if isinstance(op, ast.Is):
            return VBool(self.bm.identical(a, b))
        if isinstance(op, ast.IsNot):
            return VBool(z3.Not(self.bm.identical(a, b)))
        if isinstance(op, ast.Eq):
            return self.equals(a, b)
        if isinstance(op, ast.NotEq):
            r = self.equals(a, b)
            return vbool(not self.truth(r))
        if isinstance(op, ast.In):
            return self.bm.contains(b, a)
        if isinstance(op, ast.NotIn):
            return vbool(not self.truth(self.bm.contains(b, a)))
        names = self.CMP_NAMES.get(type(op))
        if names is None:
            raise Unsupported(f"cmp {type(op).__name__}")
        return self.order(names[0], names[1], a, b)

    def order(self, name: str, rname: str, a: V, b: V) -> V:
        if isinstance(a, (VInt, VRat)) and isinstance(b, (VInt, VRat)):
            return self.bm.num_cmp(name, a, b)
        if isinstance(a, VTuple) and isinstance(b, VTuple):
            return self.bm.tuple_cmp(name, a, b)
        res: V = NOTIMPL
        if isinstance(a, VObj) and self.has_method(a, f"__{name}__"):
            res = self.call_method(a, f"__{name}__", [b])
        if isinstance(res, VNotImpl) and isinstance(b, VObj) and \
                self.has_method(b, f"__{rname}__"):
            res = self.call_method(b, f"__{rname}__", [a])
        if isinstance(res, VNotImpl):
            self.raise_("TypeError")
        return res

    def equals(self, a: V, b: V) -> V:
        if isinstance(a, (VInt, VRat)) and isinstance(b, (VInt, VRat)):
            return self.bm.num_cmp("eq", a, b)
        if isinstance(a, VObj) and self.has_method(a, "__eq__"):
            r = self.call_method(a, "__eq__", [b])
            if not isinstance(r, VNotImpl):
                return r
        if isinstance(b, VObj) and self.has_method(b, "__eq__"):
            r = self.call_method(b, "__eq__", [a])
            if not isinstance(r, VNotImpl):
                return r
        return self.bm.default_eq(a, b)

    # ------------------------------------------------------------- containers
    def getitem(self, base: V, idx: V) -> V:
        return self.bm.getitem(base, idx)

    def setitem(self, base: V, idx: V, val: V) -> None:
        self.bm.setitem(base, idx, val)

    def iterate(self, v: V) -> Iterator[V]:
        return self.bm.iterate(v)


# ---------------------------------------------------------------------------
# opaque converters: a registered converter is any callable; its answer for
# (amount, from_unit, to_unit) is an uninterpreted outcome (A1: converters are
# pure -- they do not change the state the properties speak about)
CONV_KIND = z3.Function("conv_outcome_kind", Obj, z3.RealSort(), Obj, Obj,
                        z3.IntSort())      # 0 None, 1 value, 2 raises
CONV_VAL = z3.Function("conv_outcome_value", Obj, z3.RealSort(), Obj, Obj,
                       z3.RealSort())


def _opaque_converter(self, conv, args):
    if len(args) != 2 or not all(isinstance(a, VObj) for a in args):
        raise Unsupported("converter call shape")
    qty, unit = args
    self.path.ledger.add("A1: registered converters are pure functions of "
                         "(amount, unit, target unit)")
    a = self.heap.get("Qty._amount", qty.t)
    u = self.heap.get("Qty._unit", qty.t)
    kind = CONV_KIND(conv.t, a, u, unit.t)
    if self.path.branch(kind == 0):
        return NONE
    if self.path.branch(kind == 1):
        t = self.path.fresh("tag", z3.IntSort())
        self.path.assume(z3.Or(t == T_DEC, t == T_FRAC))
        return VRat(CONV_VAL(conv.t, a, u, unit.t), t)
    # a converter that cannot convert raises UnitConversionError (what
    # MoneyConverter does without a rate); any other exception is kind > 2
    if self.path.branch(kind == 2):
        self.raise_("UnitConversionError")
    self.raise_("ConverterRaised")


Interp.opaque_converter = _opaque_converter
EXC_BASES["ConverterRaised"] = "Exception"
