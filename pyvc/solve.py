"""L4 -- discharge: z3 (API) first, /usr/bin/cvc5 and /usr/bin/z3 CLIs on
`unknown`.  A query is `assumptions AND NOT goal`; unsat => proved."""
from __future__ import annotations

import os
import subprocess
import tempfile
import time
from dataclasses import dataclass
from typing import Any, Dict, List, Optional

import z3

CVC5 = "/usr/bin/cvc5"
Z3CLI = "/usr/bin/z3"
USE_BOTH = os.environ.get("PYVC_BOTH_SOLVERS") == "1"
STATS = {"queries": 0, "z3_ms": 0.0, "cvc5_calls": 0, "cvc5_ms": 0.0,
         "z3cli_calls": 0, "disagreements": 0}


@dataclass
class Verdict:
    status: str                  # proved | refuted | undecided
    ms: float
    solver: str = "z3"
    reason: str = ""
    model: Optional[Dict[str, str]] = None
    smt2: Optional[str] = None


def _model_dict(m: z3.ModelRef, limit: int = 60) -> Dict[str, str]:
    out: Dict[str, str] = {}
    for d in m.decls():
        if len(out) >= limit:
            break
        try:
            s = str(m[d])
        except Exception:
            s = "?"
        if len(s) > 200:
            s = s[:200] + "..."
        out[d.name()] = s
    return out


def to_smt2(formulas: List[Any], logic: str = "ALL") -> str:
    s = z3.Solver()
    s.add(*formulas)
    body = s.to_smt2()
    return body


def run_cli(cmd: List[str], smt2: str, timeout_s: int) -> str:
    with tempfile.NamedTemporaryFile("w", suffix=".smt2", delete=False) as fh:
        fh.write(smt2)
        name = fh.name
    try:
        r = subprocess.run(cmd + [name], capture_output=True, text=True,
                           timeout=timeout_s + 5)
        out = (r.stdout or "").strip().splitlines()
        return out[0].strip() if out else "unknown"
    except subprocess.TimeoutExpired:
        return "timeout"
    except Exception as e:          # solver missing etc.
        return f"error:{e}"
    finally:
        try:
            os.unlink(name)
        except OSError:
            pass


def check_unsat(formulas: List[Any], timeout_ms: int = 20000) -> Verdict:
    """Portfolio: z3 5.1 (API) briefly, then /usr/bin/z3 4.8.12 and
    /usr/bin/cvc5 on the same query, then z3 5.1 with the full budget.
    `unsat` from any of them proves; only z3's own model refutes."""
    STATS["queries"] += 1
    t0 = time.time()
    first_ms = min(timeout_ms, 3000)
    # brittle nonlinear / quantifier-free UF queries are decided in
    # milliseconds under one random seed and not in a minute under another:
    # try three seeds briefly before the slower back ends
    # first with nonlinear monomials treated as uninterpreted (a weaker
    # theory, so `unsat` is sound; anything else is ignored): with the lemma
    # instances the contracts supply, most VCs are linear over those atoms
    s0 = z3.Solver()
    s0.set("timeout", first_ms)
    s0.set("smt.arith.nl", False)
    s0.add(*formulas)
    if s0.check() == z3.unsat:
        ms = (time.time() - t0) * 1000
        STATS["z3_ms"] += ms
        v = Verdict("proved", ms, "z3")
        if USE_BOTH:
            v = _cross_check(formulas, v, timeout_ms)
        return v
    for seed in (0,):
        s = z3.Solver()
        s.set("timeout", first_ms)
        if seed:
            s.set("random_seed", seed)
        s.add(*formulas)
        r = s.check()
        if r != z3.unknown or timeout_ms <= first_ms:
            break
    ms = (time.time() - t0) * 1000
    STATS["z3_ms"] += ms
    if r == z3.unsat:
        v = Verdict("proved", ms, "z3")
        if USE_BOTH:
            v = _cross_check(formulas, v, timeout_ms)
        return v
    if r == z3.sat:
        return _refuted(s, ms, formulas)
    smt2 = _safe_smt2(formulas)
    if smt2 is not None:
        t1 = time.time()
        STATS["z3cli_calls"] += 1
        ans2 = run_cli([Z3CLI, f"-T:{max(1, timeout_ms // 1000)}"], smt2,
                       timeout_ms // 1000)
        if ans2 == "unsat":
            return Verdict("proved", (time.time() - t0) * 1000, "z3-4.8.12")
        STATS["cvc5_calls"] += 1
        t2 = time.time()
        ans = run_cli([CVC5, "--strings-exp", f"--tlimit={timeout_ms}"], smt2,
                      timeout_ms // 1000)
        STATS["cvc5_ms"] += (time.time() - t2) * 1000
        if ans == "unsat":
            return Verdict("proved", (time.time() - t0) * 1000, "cvc5")
    if timeout_ms > first_ms:
        s = z3.Solver()
        s.set("timeout", timeout_ms)
        s.add(*formulas)
        r = s.check()
        ms = (time.time() - t0) * 1000
        if r == z3.unsat:
            return Verdict("proved", ms, "z3")
        if r == z3.sat:
            return _refuted(s, ms, formulas)
    return Verdict("undecided", (time.time() - t0) * 1000, "z3",
                   reason=f"z3: {s.reason_unknown()}", smt2=smt2)


def _refuted(s, ms, formulas) -> Verdict:
    try:
        md = _model_dict(s.model())
    except Exception:
        md = {}
    return Verdict("refuted", ms, "z3", model=md, smt2=_safe_smt2(formulas))


def _cross_check(formulas, v: Verdict, timeout_ms: int) -> Verdict:
    smt2 = _safe_smt2(formulas)
    if smt2 is None:
        return v
    t1 = time.time()
    STATS["cvc5_calls"] += 1
    # the cross-check is bounded separately: cvc5 either agrees quickly or
    # stays silent (only an explicit `sat` is a disagreement)
    xt = min(timeout_ms, 8000)
    ans = run_cli([CVC5, "--strings-exp", f"--tlimit={xt}"], smt2,
                  max(1, xt // 1000))
    STATS["cvc5_ms"] += (time.time() - t1) * 1000
    if ans == "unsat":
        v.solver = "z3+cvc5"
    elif ans == "sat":
        STATS["disagreements"] += 1
        return Verdict("undecided", v.ms, "z3/cvc5",
                       reason="solver disagreement: z3 unsat, cvc5 sat",
                       smt2=smt2)
    return v


def _safe_smt2(formulas) -> Optional[str]:
    try:
        return to_smt2(formulas)
    except Exception:
        return None
