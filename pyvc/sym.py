"""Symbolic values, Boogie-style heap and path exploration for pyvc.

Heap: one z3 array per field (Obj -> sort), threaded in SSA form by rebinding
names in a python dict.  Mutable containers are heap objects as well.
Paths are explored by re-execution: an `Explorer` hands out decision prefixes,
a `Path` records the decisions taken and the path condition.
"""
from __future__ import annotations

import itertools
from dataclasses import dataclass, field
from typing import Any, Callable, Dict, List, Optional, Sequence, Tuple

import os
import z3

Obj = z3.DeclareSort("Obj")

# numeric representation tags
T_INT, T_DEC, T_FRAC, T_FLOAT, T_STDDEC = 0, 1, 2, 3, 4
TAG_NAMES = {T_INT: "int", T_DEC: "Decimal", T_FRAC: "Fraction",
             T_FLOAT: "float", T_STDDEC: "decimal.Decimal"}

# rounding modes (decimalfp.ROUNDING member order is irrelevant; ids are ours)
ROUNDING_MODES = ["ROUND_05UP", "ROUND_CEILING", "ROUND_DOWN", "ROUND_FLOOR",
                  "ROUND_HALF_DOWN", "ROUND_HALF_EVEN", "ROUND_HALF_UP",
                  "ROUND_UP"]
MODE_ID = {n: i for i, n in enumerate(ROUNDING_MODES)}


# ---------------------------------------------------------------------------
# values
class V:
    pass


@dataclass
class VInt(V):
    t: Any                       # z3 Int
    enum: Optional[str] = None   # 'ROUNDING' for enum members


@dataclass
class VRat(V):
    t: Any                       # z3 Real
    tag: Any                     # z3 Int (IntVal when known)

    def known_tag(self) -> Optional[int]:
        s = z3.simplify(self.tag)
        if z3.is_int_value(s):
            return s.as_long()
        return None


@dataclass
class VBool(V):
    t: Any


class VNone(V):
    def __repr__(self):
        return "VNone"


class VNotImpl(V):
    def __repr__(self):
        return "VNotImpl"


@dataclass
class VStr(V):
    t: Any                       # z3 String
    tmpl: Any = None             # structure of a formatted string (f-string)


@dataclass
class VObj(V):
    t: Any                       # z3 Obj
    klass: str


@dataclass
class VTuple(V):
    items: List[V]


@dataclass
class VList(V):                  # local python-level list (concrete length)
    items: List[V]


@dataclass
class VDictLit(V):               # local python-level dict with concrete keys
    items: Dict[Any, V]


@dataclass
class VFunc(V):
    name: str                    # builtin / dependency / operator function
    bound: Optional[V] = None
    extra: Any = None


@dataclass
class VUser(V):                  # user function or lambda of the package
    info: Any                    # FuncInfo or ast.Lambda
    bound: Optional[V] = None
    closure: Any = None
    module: Optional[str] = None
    via_super: bool = False


@dataclass
class VClass(V):                 # class object used as a value
    name: str                    # 'Unit', 'Decimal', 'ValueError', ...


@dataclass
class VExc(V):
    cls: str
    args: List[V] = field(default_factory=list)


@dataclass
class VGen(V):                   # lazily evaluated iterable (single use)
    it: Any                      # python iterator factory () -> iterator of V
    started: Any = None

    def iterator(self):
        if self.started is None:
            self.started = self.it()
        return self.started


@dataclass
class VOpaque(V):
    what: str = "?"


NONE = VNone()
NOTIMPL = VNotImpl()


def vbool(b: bool) -> VBool:
    return VBool(z3.BoolVal(b))


def vint(i: int) -> VInt:
    return VInt(z3.IntVal(i))


# ---------------------------------------------------------------------------
# field types
@dataclass(frozen=True)
class TInt:
    pass


@dataclass(frozen=True)
class TRat:
    pass


@dataclass(frozen=True)
class TBool:
    pass


@dataclass(frozen=True)
class TStr:
    pass


@dataclass(frozen=True)
class TObj:
    klass: str


@dataclass(frozen=True)
class TOpt:
    inner: Any


@dataclass(frozen=True)
class TTuple:
    parts: Tuple[Any, ...]


@dataclass(frozen=True)
class TValidity:       # None | year | (year, month) | date
    pass


def _mk_validity():
    d = z3.Datatype("Validity")
    d.declare("v_none")
    d.declare("v_year", ("vy_year", z3.IntSort()))
    d.declare("v_month", ("vm_year", z3.IntSort()), ("vm_month", z3.IntSort()))
    d.declare("v_date", ("vd_year", z3.IntSort()), ("vd_month", z3.IntSort()),
              ("vd_day", z3.IntSort()))
    return d.create()


Validity = _mk_validity()


def sorts_of(ty) -> List[Any]:
    if isinstance(ty, TInt):
        return [z3.IntSort()]
    if isinstance(ty, TRat):
        return [z3.RealSort(), z3.IntSort()]
    if isinstance(ty, TBool):
        return [z3.BoolSort()]
    if isinstance(ty, TStr):
        return [z3.StringSort()]
    if isinstance(ty, TObj):
        return [Obj]
    if isinstance(ty, TValidity):
        return [Validity]
    if isinstance(ty, TOpt):
        return [z3.BoolSort()] + sorts_of(ty.inner)
    if isinstance(ty, TTuple):
        out = []
        for p in ty.parts:
            out.extend(sorts_of(p))
        return out
    raise TypeError(ty)


def suffixes_of(ty) -> List[str]:
    if isinstance(ty, TRat):
        return ["", "#tag"]
    if isinstance(ty, TOpt):
        return ["#none"] + [s for s in suffixes_of(ty.inner)]
    if isinstance(ty, TTuple):
        out = []
        for i, p in enumerate(ty.parts):
            out.extend(f"#{i}{s}" for s in suffixes_of(p))
        return out
    return [""]


class Unsupported(Exception):
    """Construct outside the PyQ subset -> obligation undecided, never failed."""


def pack(ty, v: V, brancher=None) -> List[Any]:
    """V -> list of z3 terms according to type."""
    if isinstance(ty, TInt):
        if isinstance(v, VInt):
            return [v.t]
        if isinstance(v, VBool):
            return [z3.If(v.t, 1, 0)]
        raise Unsupported(f"pack int from {v!r}")
    if isinstance(ty, TRat):
        if isinstance(v, VInt):
            return [z3.ToReal(v.t), z3.IntVal(T_INT)]
        if isinstance(v, VRat):
            return [v.t, v.tag]
        raise Unsupported(f"pack rat from {v!r}")
    if isinstance(ty, TBool):
        if isinstance(v, VBool):
            return [v.t]
        raise Unsupported(f"pack bool from {v!r}")
    if isinstance(ty, TStr):
        if isinstance(v, VStr):
            return [v.t]
        raise Unsupported(f"pack str from {v!r}")
    if isinstance(ty, TObj):
        if isinstance(v, VObj):
            return [v.t]
        raise Unsupported(f"pack obj({ty.klass}) from {v!r}")
    if isinstance(ty, TValidity):
        return [validity_term(v)]
    if isinstance(ty, TOpt):
        if isinstance(v, VNone):
            return [z3.BoolVal(True)] + default_terms(ty.inner)
        return [z3.BoolVal(False)] + pack(ty.inner, v)
    if isinstance(ty, TTuple):
        if not isinstance(v, VTuple) or len(v.items) != len(ty.parts):
            raise Unsupported(f"pack tuple from {v!r}")
        out = []
        for p, it in zip(ty.parts, v.items):
            out.extend(pack(p, it))
        return out
    raise TypeError(ty)


_default_cache: Dict[str, Any] = {}


def default_terms(ty) -> List[Any]:
    out = []
    for i, s in enumerate(sorts_of(ty)):
        k = f"dflt!{s}"
        if k not in _default_cache:
            _default_cache[k] = z3.Const(k, s)
        out.append(_default_cache[k])
    return out


def unpack(ty, terms: Sequence[Any], path: "Path") -> V:
    """list of z3 terms -> V (may branch on option flags)."""
    v, rest = _unpack(ty, list(terms), path)
    assert not rest
    return v


def _unpack(ty, terms: List[Any], path: "Path"):
    if isinstance(ty, TInt):
        return VInt(terms[0]), terms[1:]
    if isinstance(ty, TRat):
        tag = terms[1]
        if path is not None:
            stag = z3.simplify(tag)
            if z3.is_int_value(stag) and stag.as_long() == T_INT:
                return VInt(z3.ToInt(terms[0])), terms[2:]
        return VRat(terms[0], terms[1]), terms[2:]
    if isinstance(ty, TBool):
        return VBool(terms[0]), terms[1:]
    if isinstance(ty, TStr):
        return VStr(terms[0]), terms[1:]
    if isinstance(ty, TObj):
        return VObj(terms[0], ty.klass), terms[1:]
    if isinstance(ty, TValidity):
        return validity_value(terms[0], path), terms[1:]
    if isinstance(ty, TOpt):
        n = len(sorts_of(ty.inner))
        isnone = terms[0]
        if path.branch(isnone):
            return NONE, terms[1 + n:]
        v, _ = _unpack(ty.inner, terms[1:1 + n], path)
        return v, terms[1 + n:]
    if isinstance(ty, TTuple):
        items = []
        for p in ty.parts:
            v, terms = _unpack(p, terms, path)
            items.append(v)
        return VTuple(items), terms
    raise TypeError(ty)


# validity values are represented at python level as:
#   VNone | VInt(year) | VTuple([VInt, VInt]) | VObj(date) -- dates are objects
#   with fields year/month/day; as dict key the structural value is used.
def validity_term(v: V):
    if isinstance(v, VNone):
        return Validity.v_none
    if isinstance(v, VInt):
        return Validity.v_year(v.t)
    if isinstance(v, VTuple) and len(v.items) == 2 and \
            all(isinstance(i, VInt) for i in v.items):
        return Validity.v_month(v.items[0].t, v.items[1].t)
    if isinstance(v, VDate):
        return Validity.v_date(v.y, v.m, v.d)
    raise Unsupported(f"validity from {v!r}")


@dataclass
class VDate(V):
    y: Any
    m: Any
    d: Any


@dataclass
class VDateTime(VDate):
    """an instance of datetime.datetime: a *subclass* instance of date (only
    its date part is modelled; equality with dates is left unsupported)"""


def validity_value(t, path: "Path") -> V:
    if path.branch(Validity.is_v_none(t)):
        return NONE
    if path.branch(Validity.is_v_year(t)):
        return VInt(Validity.vy_year(t))
    if path.branch(Validity.is_v_month(t)):
        return VTuple([VInt(Validity.vm_year(t)), VInt(Validity.vm_month(t))])
    return VDate(Validity.vd_year(t), Validity.vd_month(t),
                 Validity.vd_day(t))


# ---------------------------------------------------------------------------
ROW_SIMPLIFY = os.environ.get("PYVC_ROW", "1") == "1"
FRESH_OBJS: Dict[int, Any] = {}          # ast id -> constant (kept alive)
_MENTIONS: Dict[int, Tuple[Any, bool]] = {}


def register_fresh(o) -> None:
    FRESH_OBJS[o.get_id()] = o


OLD_ROOTS: Dict[int, Any] = {}           # arguments of the scenario, global roots


def register_old(o) -> None:
    OLD_ROOTS[o.get_id()] = o


def mentions_fresh(t) -> bool:
    """is the term NOT certainly a term over the pre-state?  A pre-state term
    is built from the scenario's argument objects, the global roots, pre-state
    heap arrays (H!...), numbers and strings; anything else (freshly allocated
    objects, stores, ghost constants, which are universally quantified and may
    denote a new object) counts as possibly new."""
    i = t.get_id()
    hit = _MENTIONS.get(i)
    if hit is not None:
        return hit[1]
    if i in FRESH_OBJS or z3.is_store(t):
        r = True
    elif z3.is_const(t) and t.decl().kind() == z3.Z3_OP_UNINTERPRETED:
        if i in OLD_ROOTS:
            r = False
        elif z3.is_array(t):
            r = not t.decl().name().startswith("H!")
        elif t.sort().kind() in (z3.Z3_INT_SORT, z3.Z3_REAL_SORT,
                                 z3.Z3_BOOL_SORT) or z3.is_string(t):
            r = False
        else:
            r = True
    elif z3.is_app(t):
        r = any(mentions_fresh(c) for c in t.children())
    else:
        r = True
    _MENTIONS[i] = (t, r)
    return r


def certainly_distinct(a, b) -> bool:
    fa, fb = a.get_id() in FRESH_OBJS, b.get_id() in FRESH_OBJS
    if fa and fb:
        return not a.eq(b)
    if fa:
        return not mentions_fresh(b)
    if fb:
        return not mentions_fresh(a)
    return False


class Heap:
    """field name -> z3 array term.  Arrays are created lazily from the
    schema; `pre` constants are named `H!<field>`."""

    def __init__(self, schema: "Schema", arrays: Optional[Dict[str, Any]] = None,
                 prefix: str = "H"):
        self.schema = schema
        self.arrays: Dict[str, Any] = dict(arrays or {})
        self.prefix = prefix

    def copy(self) -> "Heap":
        return Heap(self.schema, self.arrays, self.prefix)

    def arr(self, name: str, sort=None):
        a = self.arrays.get(name)
        if a is None:
            if sort is None:
                sort = self.schema.array_sort(name)
            a = z3.Const(f"{self.prefix}!{name}", z3.ArraySort(Obj, sort))
            self.arrays[name] = a
        return a

    def get(self, name: str, obj):
        arr = self.arr(name)
        if ROW_SIMPLIFY:
            # read over write: skip stores at objects that are certainly other
            # objects (a freshly allocated object is distinct from every other
            # freshly allocated object and from every object denoted by a term
            # over the pre-state: A1, references refer to existing objects)
            while z3.is_store(arr):
                base, idx, val = arr.arg(0), arr.arg(1), arr.arg(2)
                if idx.eq(obj):
                    return val
                if certainly_distinct(idx, obj):
                    arr = base
                else:
                    break
        return z3.Select(arr, obj)

    def set(self, name: str, obj, val) -> None:
        self.arrays[name] = z3.Store(self.arr(name), obj, val)

    # typed access ---------------------------------------------------------
    def read(self, fname: str, ty, obj, path: "Path") -> V:
        terms = [self.get(fname + s, obj) for s in suffixes_of(ty)]
        return unpack(ty, terms, path)

    def read_terms(self, fname: str, ty, obj) -> List[Any]:
        return [self.get(fname + s, obj) for s in suffixes_of(ty)]

    def write(self, fname: str, ty, obj, v: V) -> None:
        for s, t in zip(suffixes_of(ty), pack(ty, v)):
            self.set(fname + s, obj, t)


class Schema:
    """Maps (klass, field) -> type, array names -> element sort."""

    def __init__(self):
        self.fields: Dict[Tuple[str, str], Any] = {}
        self._sorts: Dict[str, Any] = {}
        self.maybe_unset: set = set()

    def declare(self, klass: str, fname: str, ty, maybe_unset=False) -> None:
        self.fields[(klass, fname)] = ty
        arr = self.array_name(klass, fname)
        for suf, srt in zip(suffixes_of(ty), sorts_of(ty)):
            self._sorts[arr + suf] = srt
        if maybe_unset:
            self.maybe_unset.add((klass, fname))
            self._sorts[arr + "#unset"] = z3.BoolSort()

    def declare_raw(self, name: str, sort) -> None:
        self._sorts[name] = sort

    def array_name(self, klass: str, fname: str) -> str:
        return f"{klass}.{fname}"

    def field_type(self, klass: str, fname: str):
        return self.fields.get((klass, fname))

    def array_sort(self, name: str):
        if name not in self._sorts:
            raise KeyError(f"undeclared heap array {name}")
        return self._sorts[name]


# ---------------------------------------------------------------------------
class Infeasible(Exception):
    pass


class Explorer:
    """DFS over decision prefixes by re-execution."""

    def __init__(self, max_paths: int = 4000, check_timeout_ms: int = 3000):
        self.work: List[List[bool]] = [[]]
        self.max_paths = max_paths
        self.check_timeout_ms = check_timeout_ms
        self.n_paths = 0
        self.n_checks = 0

    def next_prefix(self) -> Optional[List[bool]]:
        if not self.work:
            return None
        self.n_paths += 1
        if self.n_paths > self.max_paths:
            raise Unsupported(f"more than {self.max_paths} paths")
        return self.work.pop()


class Path:
    def __init__(self, explorer: Explorer, prefix: List[bool], heap: Heap,
                 assumptions: Sequence[Any] = ()):
        self.ex = explorer
        self.prefix = prefix
        self.decisions: List[bool] = []
        self.pc: List[Any] = []
        self.heap = heap
        self.solver = z3.Solver()
        self.solver.set("timeout", explorer.check_timeout_ms)
        self._fresh = itertools.count()
        self.side_obligations: List[Tuple[str, List[Any], Any, str]] = []
        self.notes: List[str] = []
        self.trace: List[str] = []
        self.ledger: set = set()        # assumption-ledger ids used
        for a in assumptions:
            self.assume(a)

    # -- naming ------------------------------------------------------------
    def fresh_name(self, base: str) -> str:
        return f"{base}!{next(self._fresh)}"

    def fresh(self, base: str, sort):
        return z3.Const(self.fresh_name(base), sort)

    # -- path condition ----------------------------------------------------
    def assume(self, cond) -> None:
        cond = z3.simplify(cond) if not isinstance(cond, bool) else z3.BoolVal(cond)
        if z3.is_true(cond):
            return
        self.pc.append(cond)
        self.solver.add(cond)

    def _sat(self, cond) -> bool:
        self.ex.n_checks += 1
        self.solver.push()
        self.solver.add(cond)
        r = self.solver.check()
        self.solver.pop()
        return r != z3.unsat      # unknown counts as feasible (sound)

    def feasible(self) -> bool:
        self.ex.n_checks += 1
        return self.solver.check() != z3.unsat

    def branch(self, cond) -> bool:
        """Decide a symbolic condition; forks by re-execution."""
        if isinstance(cond, bool):
            return cond
        cond = z3.simplify(cond)
        if z3.is_true(cond):
            return True
        if z3.is_false(cond):
            return False
        i = len(self.decisions)
        if i < len(self.prefix):
            d = self.prefix[i]
        else:
            can_t = self._sat(cond)
            can_f = self._sat(z3.Not(cond))
            if can_t and can_f:
                d = True
                self.ex.work.append(self.decisions + [False])
            elif can_t:
                d = True
            elif can_f:
                d = False
            else:
                raise Infeasible()
        self.decisions.append(d)
        lit = cond if d else z3.Not(cond)
        self.pc.append(lit)
        self.solver.add(lit)
        return d

    def must(self, cond) -> bool:
        """True iff pc implies cond (used for static-like decisions)."""
        return not self._sat(z3.Not(cond))

    def obligation(self, oid: str, goal, why: str = "") -> None:
        """An intermediate proof obligation (assert / callee requires)."""
        self.side_obligations.append((oid, list(self.pc), goal, why))
