"""Spec functions (DESIGN.md section 4.1) -- the symbolic twins.

Everything here is defined independently of the code under verification:
`round_rel` is the textbook definition of the eight rounding modes as a
relation between a real x and an integer k, `p10` is ten to an integer power
(uninterpreted, with ground-instantiated lemma-library facts), `qpow` is an
integer power of a rational.
"""
from __future__ import annotations

from typing import Any, List, Tuple

import z3

from .sym import MODE_ID, Obj, Unsupported

# configured default rounding mode (decimalfp global): a symbolic constant
DFLT_MODE = z3.Int("DFLT_ROUNDING_MODE")
DFLT_MODE_RANGE = z3.And(DFLT_MODE >= 0, DFLT_MODE < 8)


def py_divmod(a, b) -> Tuple[Any, Any]:
    """Python's floor division / modulo on ints (sign of the divisor)."""
    q = z3.If(b > 0, a / b, (-a) / (-b))     # z3 int div floors for b > 0
    r = a - b * q
    return q, r


def absr(x):
    return z3.If(x < 0, -x, x)


def round_rel(x, mode, k):
    """k is x rounded to an integer with rounding mode `mode` (ids as in
    sym.ROUNDING_MODES).  Written from the definitions of the modes in the
    documentation of the standard `decimal` module as inequalities between the
    real x and the integer k (no floor / truncation function is used, so the
    relation is linear in x and k)."""
    kr = z3.ToReal(k)
    half = z3.RealVal("1/2")
    floor_ = z3.And(kr <= x, x < kr + 1)
    ceil_ = z3.And(kr - 1 < x, x <= kr)
    down_ = z3.If(x >= 0, floor_, ceil_)          # toward zero
    up_ = z3.If(x >= 0, ceil_, floor_)            # away from zero
    dist = absr(x - kr)
    tie = dist == half
    near = dist <= half
    ak = z3.If(k < 0, -k, k)
    ax = absr(x)
    half_up = z3.And(near, z3.Implies(tie, z3.ToReal(ak) > ax))
    half_down = z3.And(near, z3.Implies(tie, z3.ToReal(ak) < ax))
    half_even = z3.And(near, z3.Implies(tie, k % 2 == 0))
    # 05UP: round toward zero unless the last digit of the truncated value is
    # 0 or 5, then away from zero; exact values are kept
    t = z3.If(x > 0, k - 1, k + 1)                # truncated value if k is 'away'
    at = z3.If(t < 0, -t, t)
    r05 = z3.Or(kr == x,
                z3.And(kr != x, down_, ak % 5 != 0),
                z3.And(kr != x, up_, at % 5 == 0))
    return z3.If(mode == MODE_ID["ROUND_FLOOR"], floor_,
           z3.If(mode == MODE_ID["ROUND_CEILING"], ceil_,
           z3.If(mode == MODE_ID["ROUND_DOWN"], down_,
           z3.If(mode == MODE_ID["ROUND_UP"], up_,
           z3.If(mode == MODE_ID["ROUND_HALF_UP"], half_up,
           z3.If(mode == MODE_ID["ROUND_HALF_DOWN"], half_down,
           z3.If(mode == MODE_ID["ROUND_HALF_EVEN"], half_even,
                 r05)))))))


# the rounding *function*: round_rel is total and functional for valid modes
# (lemmas `round_rel/total` and `round_rel/functional`, proved in lemmas.py),
# so `rnd` is well defined; its defining fact is instantiated per use.
rnd = z3.Function("rnd", z3.RealSort(), z3.IntSort(), z3.IntSort())


def round_builtin_mode(tag):
    """mode used by the built-in round(x, n): decimalfp.Decimal uses the
    default rounding mode, fractions.Fraction rounds half to even (A2)"""
    from .sym import T_DEC
    return z3.If(tag == T_DEC, DFLT_MODE, z3.IntVal(MODE_ID["ROUND_HALF_EVEN"]))


def rnd_fact(x, mode):
    return z3.Implies(z3.And(mode >= 0, mode < 8),
                      round_rel(x, mode, rnd(x, mode)))


def rnd_int_fact(k, mode):
    """ground instance of lemma round_rel/integers-fixed: an integer is
    rounded to itself in every mode"""
    return z3.Implies(z3.And(mode >= 0, mode < 8),
                      rnd(z3.ToReal(k), mode) == k)


def rnd_integral_fact(x, mode):
    """ground instance of lemma round_rel/integers-fixed at k := ToInt(x): an
    integral real is rounded to itself in every mode"""
    return z3.Implies(z3.And(mode >= 0, mode < 8, x == z3.ToReal(z3.ToInt(x))),
                      z3.ToReal(rnd(x, mode)) == x)


# powers of ten -----------------------------------------------------------
p10 = z3.Function("p10", z3.IntSort(), z3.RealSort())


def p10_facts(path, n) -> None:
    """Ground instances of the lemma library for the term n (A3):
    p10(0)=1, p10(n)>0, p10(n+1)=10*p10(n), n>=0 => p10(n)>=1 and integral."""
    sn = z3.simplify(n)
    if z3.is_int_value(sn):
        v = sn.as_long()
        if abs(v) <= 60:
            val = z3.RealVal(10) ** v if v >= 0 else 1 / (z3.RealVal(10) ** (-v))
            path.assume(p10(sn) == z3.simplify(val))
            return
    path.assume(p10(z3.IntVal(0)) == 1)
    path.assume(p10(n) > 0)
    path.assume(p10(n + 1) == 10 * p10(n))
    path.assume(p10(n - 1) * 10 == p10(n))
    path.assume(z3.Implies(n >= 0, p10(n) >= 1))
    path.assume(z3.Implies(n >= 0, p10(n) == z3.ToReal(z3.ToInt(p10(n)))))
    path.assume(z3.Implies(n <= 0, p10(n) <= 1))
    path.assume(z3.Implies(n < 0, p10(n) < 1))
    path.assume(z3.Implies(n > 0, p10(n) >= 10))


# decimal magnitude: floor(log10(|x|)) as a function of the value
mag = z3.Function("mag10", z3.RealSort(), z3.IntSort())
lg10 = z3.Function("lg10", z3.RealSort(), z3.IntSort())   # exponent of a power of ten


def mag_fact(x):
    ax = absr(x)
    return z3.Implies(x != 0, z3.And(p10(mag(x)) <= ax, ax < p10(mag(x) + 1)))


def lg_fact(n):
    return lg10(p10(n)) == n


def is_int(x):
    return x == z3.ToReal(z3.ToInt(x))


# integer powers of rationals ------------------------------------------------
qpow_uf = z3.Function("qpow", z3.RealSort(), z3.IntSort(), z3.RealSort())


def qpow(x, n, path=None):
    """x ** n for integer n: expanded for small concrete n, otherwise an
    uninterpreted function with ground lemma instances."""
    sn = z3.simplify(n)
    if z3.is_int_value(sn):
        v = sn.as_long()
        if abs(v) <= 8:
            r = z3.RealVal(1)
            for _ in range(abs(v)):
                r = r * x
            return r if v >= 0 else 1 / r
    sx = z3.simplify(x)
    if z3.is_rational_value(sx) and sx.numerator_as_long() == 10 and \
            sx.denominator_as_long() == 1:
        if path is not None:
            p10_facts(path, n)
        return p10(n)
    t = qpow_uf(x, n)
    if path is not None:
        for f in qpow_facts(x, n):
            path.assume(f)
    return t


def qpow_facts(x, n):
    """ground instances of the laws of integer powers for the term x ** n (A3)"""
    t = qpow_uf(x, n)
    return [
        z3.Implies(n == 0, t == 1), z3.Implies(n == 1, t == x),
        z3.Implies(n == -1, t * x == 1), z3.Implies(x == 1, t == 1),
        z3.Implies(x != 0, z3.And(t != 0, qpow_uf(x, -n) * t == 1)),
        z3.Implies(z3.And(x == 0, n > 0), t == 0),
        z3.Implies(x > 0, t > 0),
        z3.Implies(z3.And(is_int(x), n >= 0), is_int(t)),
    ]


numer = z3.Function("numer", z3.RealSort(), z3.IntSort())
denom = z3.Function("denom", z3.RealSort(), z3.IntSort())


def num_den_fact(x):
    """numer(x)/denom(x) == x in the multiplicative and in the quotient form,
    and: the numerator is divisible by the denominator exactly when x is
    integral (lemma field/divisible-quotient-integral)"""
    n, d = numer(x), denom(x)
    return z3.And(d > 0, z3.ToReal(n) == x * z3.ToReal(d),
                  z3.ToReal(n) / z3.ToReal(d) == x,
                  n == d * (n / d) + n % d,       # SMT-LIB definition of div / mod
                  z3.Implies(n % d == 0, x == z3.ToReal(n / d)),
                  (n % d == 0) == is_int(x))


def num_den(x, path) -> Tuple[Any, Any]:
    """numerator / denominator of a rational: functions of the value with
    n/d == x, d > 0, and d == 1 exactly for integral values (lowest terms is
    not needed beyond that by any caller's contract)."""
    n, d = numer(x), denom(x)
    path.assume(d > 0)
    path.assume(z3.ToReal(n) == x * z3.ToReal(d))
    path.assume((d == 1) == is_int(x))
    return n, d


# hashing / identity ---------------------------------------------------------
hash_num = z3.Function("hash_num", z3.RealSort(), z3.IntSort())
hash_str = z3.Function("hash_str", z3.StringSort(), z3.IntSort())
hash_obj = z3.Function("hash_obj", Obj, z3.IntSort())       # id-based
hash_pair = z3.Function("hash_pair", z3.IntSort(), z3.IntSort(), z3.IntSort())
HASH_NIL = z3.IntVal(7)
id_of = z3.Function("id_of", Obj, z3.IntSort())


def hash_of(v, bm) -> Any:
    """hash(): uninterpreted, congruent; equal numbers hash equal across
    int / Decimal / Fraction (A1/A2)."""
    from .sym import VInt, VRat, VStr, VTuple, VObj, VNone
    bm.ledger("A1: hash is a congruence; equal numbers hash equal across "
              "int/Decimal/Fraction")
    if isinstance(v, VInt):
        return hash_num(z3.ToReal(v.t))
    if isinstance(v, VRat):
        return hash_num(v.t)
    if isinstance(v, VStr):
        return hash_str(v.t)
    if isinstance(v, VNone):
        return z3.IntVal(3)
    if isinstance(v, VTuple):
        h = HASH_NIL
        for it in reversed(v.items):
            h = hash_pair(hash_of(it, bm), h)
        return h
    if isinstance(v, VObj):
        if bm.I.has_method(v, "__hash__"):
            r = bm.I.call_method(v, "__hash__", [])
            return r.t
        return hash_obj(v.t)
    raise Unsupported(f"hash of {v!r}")


# strings -------------------------------------------------------------------
str_is_int = z3.Function("str_is_int", z3.StringSort(), z3.BoolSort())
str_to_int = z3.Function("str_to_int", z3.StringSort(), z3.IntSort())
str_is_decimal = z3.Function("str_is_decimal", z3.StringSort(), z3.BoolSort())
str_is_fraction = z3.Function("str_is_fraction", z3.StringSort(), z3.BoolSort())
str_is_zero_div = z3.Function("str_is_zero_div", z3.StringSort(), z3.BoolSort())
str_to_real = z3.Function("str_to_real", z3.StringSort(), z3.RealSort())
str_of_num = z3.Function("str_of_num", z3.RealSort(), z3.IntSort(),
                         z3.StringSort())
dec_representable = z3.Function("dec_representable", z3.RealSort(),
                                z3.BoolSort())


def valid_date(y, m, d):
    leap = z3.And(y % 4 == 0, z3.Or(y % 100 != 0, y % 400 == 0))
    dim = z3.If(z3.Or(m == 4, m == 6, m == 9, m == 11), 30,
                z3.If(m == 2, z3.If(leap, 29, 28), 31))
    return z3.And(y >= 1, y <= 9999, m >= 1, m <= 12, d >= 1, d <= dim)
