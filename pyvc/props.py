"""Property table: which functions (by contract key), lemmas, frame-scan
clauses and bounded stand-ins decide each of the given properties."""
from __future__ import annotations

Q = "quantity:"
T = "quantity.term:"
MN = "quantity.money:"
CV = "quantity.converter:"
RG = "quantity.registry:"

_CMP = ["__lt__", "__le__", "__gt__", "__ge__"]

PROPS = {
    "C01": dict(
        functions=[Q + "Unit._get_factor", Q + "Unit.__eq__",
                   Q + "Quantity.equiv_amount", Q + "Quantity.convert",
                   Q + "Quantity.__new__"],
        standins=["C01"],
    ),
    "C03": dict(
        functions=[Q + "Quantity.__add__", Q + "Quantity.__radd__",
                   Q + "Quantity.__sub__", Q + "Quantity.__rsub__",
                   Q + "Quantity.__neg__", Q + "Quantity.__abs__",
                   Q + "Quantity.__pos__", Q + "Quantity.__eq__",
                   Q + "Quantity._compare"] +
                  [Q + "Quantity." + c for c in _CMP] +
                  [Q + "Quantity.equiv_amount"],
        standins=["C03"],
    ),
    "C04": dict(
        functions=[Q + "Quantity.__eq__", Q + "Quantity._compare"] +
                  [Q + "Quantity." + c for c in _CMP] +
                  [Q + "Unit.__eq__", Q + "Unit._compare"] +
                  [Q + "Unit." + c for c in _CMP] +
                  [Q + "Quantity.equiv_amount", Q + "Unit._get_factor"],
        standins=["C04"],
    ),
    "C05": dict(
        functions=[Q + "Quantity.__new__", Q + "Quantity.__add__",
                   Q + "Quantity.__sub__", Q + "Quantity.__neg__",
                   Q + "Quantity.__abs__", Q + "Quantity.convert"],
        standins=["C05"],
        frame=["_amount", "_unit", "raw-instance"],
    ),
    "C13": dict(
        functions=[Q + "_floordiv_rounded", Q + "_quantize_fraction",
                   Q + "Quantity.quantize", Q + "Quantity.__round__",
                   Q + "Quantity.__new__", Q + "Quantity.equiv_amount"],
        standins=["C13"],
    ),
}

ALL_IDS = [f"C{i:02d}" for i in range(1, 21)]
