"""Property table: which functions (by contract key), lemmas, frame-scan
clauses and bounded stand-ins decide each of the given properties."""
from __future__ import annotations

Q = "quantity:"
T = "quantity.term:"
MN = "quantity.money:"
CV = "quantity.converter:"
RG = "quantity.registry:"

_CMP = ["__lt__", "__le__", "__gt__", "__ge__"]

PROPS = {
    "C01": dict(
        functions=[Q + "Unit._get_factor", Q + "Unit.__eq__",
                   Q + "Quantity.equiv_amount", Q + "Quantity.convert",
                   Q + "Quantity.__new__"],
        standins=["C01"],
    ),
    "C03": dict(
        functions=[Q + "Quantity.__add__", Q + "Quantity.__radd__",
                   Q + "Quantity.__sub__", Q + "Quantity.__rsub__",
                   Q + "Quantity.__neg__", Q + "Quantity.__abs__",
                   Q + "Quantity.__pos__", Q + "Quantity.__eq__",
                   Q + "Quantity._compare"] +
                  [Q + "Quantity." + c for c in _CMP] +
                  [Q + "Quantity.equiv_amount"],
        standins=["C03"],
    ),
    "C04": dict(
        functions=[Q + "Quantity.__eq__", Q + "Quantity._compare"] +
                  [Q + "Quantity." + c for c in _CMP] +
                  [Q + "Unit.__eq__", Q + "Unit._compare"] +
                  [Q + "Unit." + c for c in _CMP] +
                  [Q + "Quantity.equiv_amount", Q + "Unit._get_factor"],
        standins=["C04"],
    ),
    "C05": dict(
        functions=[Q + "Quantity.__new__", Q + "Quantity.__add__",
                   Q + "Quantity.__sub__", Q + "Quantity.__neg__",
                   Q + "Quantity.__abs__", Q + "Quantity.convert"],
        standins=["C05"],
        frame=["_amount", "_unit", "raw-instance"],
    ),
    "C13": dict(
        functions=[Q + "_floordiv_rounded", Q + "_quantize_fraction",
                   Q + "Quantity.quantize", Q + "Quantity.__round__",
                   Q + "Quantity.__new__", Q + "Quantity.equiv_amount"],
        standins=["C13"],
    ),
}

_UNIT_ALG = [Q + "Unit.__mul__", Q + "Unit.__rmul__", Q + "Unit.__truediv__",
             Q + "Unit.__rtruediv__", Q + "Unit.__pow__",
             Q + "_amnt_and_unit_from_term"]
_QTY_ALG = [Q + "Quantity.__mul__", Q + "Quantity.__rmul__",
            Q + "Quantity.__truediv__", Q + "Quantity.__rtruediv__",
            Q + "Quantity.__pow__"]
PROPS["C02"] = dict(functions=_UNIT_ALG + _QTY_ALG + [Q + "Quantity.__new__",
                                                       Q + "Unit.__hash__"],
                    standins=["C02"], frame=["_op_cache"])
PROPS["C17"] = dict(functions=_UNIT_ALG + _QTY_ALG + [Q + "Unit.__hash__"],
                    standins=["C17"],
                    frame=["_op_cache", "_TERM_UNIT_MAP.register_item"])
PROPS["C14"] = dict(
    functions=[CV + "TableConverter._get_factor", CV + "Converter.__call__",
               CV + "TableConverter.__init__", Q + "Quantity.equiv_amount",
               Q + "Quantity.convert", Q + "Quantity.__eq__",
               Q + "Quantity._compare"],
    standins=["C14"])
PROPS["C12"] = dict(
    functions=[Q + "QuantityMeta.register_converter",
               Q + "QuantityMeta.remove_converter",
               MN + "MoneyMeta.register_converter",
               MN + "MoneyMeta.remove_converter",
               MN + "MoneyConverter.__enter__", MN + "MoneyConverter.__exit__",
               Q + "Quantity.equiv_amount"],
    standins=["C12"],
    frame=["_converters", "_converters.append", "_converters.remove",
           "_converters.pop"])
_DECL = [RG + "DefinedItemRegistry.register_item", Q + "QuantityMeta._make_unit",
         Q + "QuantityMeta._make_ref_unit", Q + "QuantityMeta.new_unit",
         Q + "Unit.__new__", Q + "QuantityMeta.__contains__",
         Q + "QuantityMeta.get_unit_by_symbol"]
PROPS["C15"] = dict(functions=_DECL + [Q + "Quantity.__new__"],
                    standins=["C15"],
                    frame=["_SYMBOL_UNIT_MAP", "_TERM_UNIT_MAP.register_item",
                           "_unit_map", "_equiv", "_definition", "_qty_cls",
                           "_symbol", "_ref_unit", "_item_def_map",
                           "_item_list.append", "raw-instance"])
_DECL_NOTE = ("type creation (QuantityMeta.__new__/__init__ with the metaclass "
              "protocol), derive_unit_from and the enumerating queries "
              "units()/len/iter are covered by the bounded declaration-history "
              "stand-in only, not by contracts")
PROPS["C15"]["level"] = "other"
PROPS["C15"]["level_note"] = _DECL_NOTE
PROPS["C16"] = dict(functions=_DECL, standins=["C16"], level="other",
                    level_note=_DECL_NOTE,
                    frame=["_SYMBOL_UNIT_MAP", "_TERM_UNIT_MAP.register_item",
                           "_unit_map", "_item_def_map", "_item_list.append",
                           "_rate_dict.update", "_type_of_validity"])
PROPS["C19"] = dict(
    functions=[Q + "Quantity.__hash__", Q + "Unit.__hash__",
               Q + "Quantity.__eq__", Q + "Unit.__eq__",
               Q + "Quantity.equiv_amount"],
    standins=["C19"], level="other",
    level_note="Term.__hash__/__eq__ rest on the C07 contracts; Unit "
               "eq/hash and table types are recorded known findings")
_ER = [MN + "ExchangeRate." + n for n in
       ("__init__", "inverted", "__eq__", "__hash__", "__mul__", "__rmul__",
        "__truediv__", "__rtruediv__")]
PROPS["C09"] = dict(functions=_ER[:7], standins=["C09"],
                    frame=["_unit_multiple", "_term_amount", "_unit_currency",
                           "_term_currency"])
PROPS["C10"] = dict(functions=[_ER[4], _ER[5], _ER[7],
                               Q + "_amnt_and_unit_from_term",
                               Q + "Quantity.__new__"], standins=["C10"])
PROPS["C11"] = dict(
    functions=[MN + "MoneyConverter." + n for n in
               ("__init__", "update", "get_rate", "__call__")] + [_ER[0], _ER[1]],
    standins=["C11"], level="other",
    level_note="string spellings of periods are bounded; get_rate(X, X) is a "
               "recorded known finding (F4)",
    frame=["_rate_dict", "_rate_dict.update", "_type_of_validity",
           "_base_currency"])
PROPS["C08"] = dict(
    functions=[MN + "MoneyMeta.new_unit", MN + "MoneyMeta.register_currency",
               "quantity.money.currencies:get_currency_info",
               Q + "Unit._get_factor", Q + "Quantity.equiv_amount",
               Q + "Quantity.__add__", Q + "Quantity.__sub__",
               Q + "Quantity.__truediv__", Q + "Quantity._compare",
               Q + "Quantity.__eq__", Q + "Quantity.convert",
               Q + "Unit.__truediv__", Q + "Unit.__mul__",
               Q + "QuantityMeta.get_unit_by_symbol"],
    standins=["C08"], frame=["_smallest_fraction", "_currency_dict"])
PROPS["C20"] = dict(
    functions=[Q + "QuantityMeta._make_unit", Q + "QuantityMeta._make_ref_unit",
               Q + "QuantityMeta.new_unit", Q + "Quantity.convert",
               Q + "Quantity.equiv_amount", Q + "Unit._get_factor",
               Q + "Unit.__mul__"],
    ground="catalogue", standins=["C20"])
PROPS["C18"] = dict(
    functions=[Q + "Quantity.__new__", Q + "Quantity.__str__",
               Q + "Quantity.__format__", Q + "Unit.__mul__",
               Q + "Unit.__rmul__"],
    standins=["C18"], level="other",
    level_note="parsing of amount-and-symbol strings (str.lstrip/split, "
               "Decimal(str)/Fraction(str), symbol lookup) and therefore the "
               "text round trip are outside the verifier's reach and covered "
               "by the bounded stand-in only")
PROPS["C05"]["functions"] += [_ER[4], _ER[7]]
PROPS["C16"]["functions"] += [MN + "MoneyMeta.new_unit",
                              MN + "MoneyMeta.register_currency",
                              MN + "MoneyConverter.update"]
PROPS["C19"]["functions"] += [_ER[2], _ER[3]]
PROPS["C05"]["functions"] += _UNIT_ALG[:5] + _QTY_ALG

ALL_IDS = [f"C{i:02d}" for i in range(1, 21)]

PROPS["C07"] = dict(
    functions=[T + "_pow", T + "Term._reduce_items", T + "_filter_items",
               T + "_reciprocal"],
    standins=["C07"], level="other",
    level_note="only the exact power helper, the item filter and the item "
               "reciprocal (item tuples of length 1..3) and the fast paths "
               "(one or two items) of the item reduction are verified; the "
               "general sort / "
               "group / merge path, recursive normalisation, the memoised "
               "normal form and hash are bounded")

PROPS["C06"] = dict(
    functions=[Q + "Quantity.allocate", Q + "Quantity.__mul__",
               Q + "Quantity.__sub__", Q + "Quantity.__add__", Q + "Unit.__rmul__"],
    standins=["C06"], level="other",
    level_note="Quantity.allocate is verified from the source only for ratio "
               "lists of length 1 (all values symbolic); the verification "
               "conditions for length 2 and more (sorted rounding errors, "
               "dispersal loop) are generated but were not decided by z3 / "
               "cvc5 within the budget (nonlinear real arithmetic over the "
               "quantum), so the dispersal and the deviation bound are "
               "bounded (stand-in)")
