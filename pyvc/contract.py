"""L2 -- contract DSL (sidecar specifications, embedded in Python).

A contract is attached to a function of the real source by its key
`module:qualname`.  `spec(ctx)` returns the preconditions and the list of
cases for concrete argument values `ctx.args` (fresh symbols when the function
itself is verified, the actual arguments when the contract summarises a call).

    Case(name, when, returns=..., ensures=[(clause, fn(ctx, out) -> z3 Bool)],
         raises='ValueError', modifies=[...], result=fn(ctx) -> V)

* `when`      z3 Bool over the pre-state: the guard of the case
* `ensures`   clauses proved for every path whose outcome falls under the guard
* `raises`    the case demands an exception of (a subclass of) that class; its
              frame is "nothing allocated before the call changed" unless
              `modifies` says otherwise
* `modifies`  names of heap arrays the case may change on pre-allocated
              objects (everything else is proved unchanged)
* `result`    builder used when the contract summarises a call: creates the
              result value (and performs the declared effects on ctx.heap);
              the ensures clauses are then *assumed* about it
"""
from __future__ import annotations

from dataclasses import dataclass, field
from typing import Any, Callable, Dict, List, Optional, Sequence, Tuple

import z3

from .sym import (NONE, Heap, Path, Unsupported, V, VExc, VObj, VNone)


@dataclass
class Outcome:
    kind: str                    # 'return' | 'raise'
    value: Optional[V]
    exc: Optional[VExc]
    heap: Heap                   # post-state


@dataclass
class Case:
    name: str
    when: Any
    ensures: List[Tuple[str, Callable[["Ctx", Outcome], Any]]] = \
        field(default_factory=list)
    raises: Optional[str] = None
    modifies: Sequence[str] = ()
    result: Optional[Callable[["Ctx"], V]] = None
    props: Sequence[str] = ()
    public: bool = True


class Ctx:
    def __init__(self, interp, args: Dict[str, V], pre: Heap):
        self.I = interp
        self.path: Path = interp.path
        self.args = args
        self.pre = pre

    @property
    def heap(self) -> Heap:
        return self.path.heap

    def a(self, name: str) -> V:
        return self.args[name]

    def alloc(self, klass: str, base="r") -> VObj:
        return self.I.alloc(klass, base)

    def fresh(self, base: str, sort):
        return self.path.fresh(base, sort)

    def axiom(self, fact, why: str = "A3: ground instance of the lemma "
                                     "library (rnd is the function defined "
                                     "by round_rel)") -> None:
        """assume a ground instance of a lemma-library axiom (never an
        obligation; recorded in the assumption ledger)"""
        self.path.assume(fact)
        self.path.ledger.add(why)


@dataclass
class Scenario:
    name: str
    make_args: Callable[[Any], Dict[str, V]]    # interp -> args by name
    kwargs: Dict[str, V] = field(default_factory=dict)
    constructing: Optional[str] = None          # klass of `self` for __init__


class Contract:
    def __init__(self, key: str, spec: Callable[[Ctx], Tuple[List[Any], List[Case]]],
                 scenarios: Callable[[], List[Scenario]],
                 props: Sequence[str] = (), public: bool = True,
                 summarize: bool = True, inline: Sequence[str] = (),
                 notes: str = ""):
        self.key = key
        self.spec = spec
        self.scenarios = scenarios
        self.props = list(props)
        self.public = public
        self.summarize = summarize
        self.inline = list(inline)     # callees inlined instead of summarised
        self.notes = notes

    # -- use as a summary at a call site -----------------------------------
    def apply(self, interp, args: List[V], kwargs: Dict[str, V],
              constructing: Optional[str] = None) -> V:
        from .interp import Frame, PyExc, StopPath
        fi = interp.pkg.func(self.key)
        frame = Frame(fi.module, fi.cls, fi.key + "<summary>", {})
        call_args = list(args)
        self_obj = None
        if constructing is not None:
            self_obj = interp.alloc(constructing, constructing.lower())
            interp.bm.init_unset(self_obj)
            call_args = [self_obj] + call_args
        interp.bind_params(fi.node, call_args, kwargs, frame, frame)
        argmap = {k: v for k, v in frame.env.items()}
        pre = interp.heap.copy()
        ctx = Ctx(interp, argmap, pre)
        requires, cases = self.spec(ctx)
        caller = interp.calls[-1] if interp.calls else "<top>"
        for i, r in enumerate(requires):
            interp.path.obligation(f"call:{self.key}/requires#{i}", r,
                                   f"precondition of {self.key} at a call in "
                                   f"{caller}")
            interp.path.assume(r)
        interp.path.ledger.add(f"contract:{self.key}")
        for case in cases:
            if interp.path.branch(case.when):
                if case.raises is not None:
                    alts = case.raises.split("|")
                    for alt in alts[:-1]:
                        if interp.path.branch(interp.path.fresh(
                                "excalt", z3.BoolSort())):
                            raise PyExc(VExc(alt, []))
                    raise PyExc(VExc(alts[-1], []))
                if case.result is None:
                    raise Unsupported(f"contract {self.key} case {case.name} "
                                      f"has no result builder")
                res = case.result(ctx)
                out = Outcome("return", res, None, interp.heap)
                for _n, cl in case.ensures:
                    interp.path.assume(cl(ctx, out))
                if constructing is not None:
                    return self_obj
                return res
        raise StopPath()


REGISTRY: Dict[str, Contract] = {}


def register(c: Contract) -> Contract:
    REGISTRY[c.key] = c
    return c
