"""Developer entry point: verify contracts by key prefix and print reports."""
from __future__ import annotations

import importlib
import os
import sys
import time

from .contract import REGISTRY
from .extract import Package
from .model import make_schema
from .verify import verify_function


def load_contracts():
    for m in ("rounding", "units", "quantity_ops", "term", "registry",
              "unit_ops", "qty_mul", "converter", "hashing", "money", "declare", "money_decl",
              "term_impl", "allocate"):
        try:
            importlib.import_module("contracts." + m)
        except ModuleNotFoundError as e:
            if "contracts." + m not in str(e):
                raise


def main(argv):
    load_contracts()
    pkg = Package()
    schema = make_schema()
    pats = argv[1:] or [""]
    summaries = {k: c for k, c in REGISTRY.items() if c.summarize}
    for key, c in REGISTRY.items():
        if not any(p in key for p in pats):
            continue
        t0 = time.time()
        rep = verify_function(pkg, c, summaries, schema,
                              inline_only=set(getattr(c, "inline", ())))
        print(f"== {key}  paths={rep.paths} checks={rep.feasibility_checks} "
              f"wall={time.time()-t0:.1f}s")
        for o in rep.obligations.values():
            line = f"   [{o.status:9}] {o.oid}  vcs={o.n_vcs} {o.solver_ms:.0f}ms {o.solver}"
            if o.status != "proved":
                line += f"\n       {o.detail}"
                if o.model and os.environ.get("PYVC_SHOW_MODEL"):
                    ms = {k: v for k, v in list(o.model.items())[:40]}
                    line += f"\n       model: {ms}"
            print(line)
        for k, n in rep.case_hits.items():
            if n == 0:
                print(f"   !! case never reached: {k}")
        if rep.ledger:
            print("   ledger:", sorted(rep.ledger))


if __name__ == "__main__":
    main(sys.argv)
