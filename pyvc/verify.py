"""Verification driver: function x contract -> obligations -> solver verdicts.

For every scenario (static kinds of the arguments) every feasible path of the
real function body is executed symbolically; each path outcome is checked
against every case of the contract whose guard is consistent with the path.
Obligations are identified by `<function>/<scenario>/<case>/<clause>` -- stable
under refactoring of the body.
"""
from __future__ import annotations

import time
import traceback
from dataclasses import dataclass, field
from typing import Any, Dict, List, Optional, Tuple

import z3

from . import model as M
from . import spec as S
from .contract import Case, Contract, Ctx, Outcome, Scenario, REGISTRY
from .extract import Package
from .interp import Interp, PyExc, StopPath, exc_isa
from .sym import (VGen, VTuple, Explorer, Heap, Infeasible, Obj, Path, Unsupported, VExc,
                  VObj, V)
from .solve import check_unsat, Verdict

import os as _os
PROOF_TIMEOUT_MS = int(_os.environ.get("PYVC_PROOF_TIMEOUT_MS", "20000"))
_TRACE = bool(_os.environ.get("PYVC_TRACE"))
LOOP_SPECS: Dict[Tuple[str, int], Any] = {}     # (function key, loop ordinal)


@dataclass
class Obligation:
    oid: str
    function: str
    kind: str                    # ensures | outcome | frame | assert | requires | coverage | vacuity
    public: bool
    props: List[str]
    status: str = "proved"       # proved | refuted | undecided
    n_vcs: int = 0
    solver_ms: float = 0.0
    solver: str = "z3"
    detail: str = ""
    model: Optional[Dict[str, str]] = None
    smt2: Optional[str] = None

    def merge(self, v: Verdict, detail: str = "") -> None:
        self.n_vcs += 1
        if _TRACE:
            print(f"      .. {self.oid} #{self.n_vcs}: {v.status} {v.ms:.0f}ms "
                  f"{v.solver}", flush=True)
        self.solver_ms += v.ms
        if v.solver and v.solver not in self.solver:
            self.solver += "+" + v.solver
        if v.status == "refuted":
            if self.status != "refuted":
                self.status = "refuted"
                self.model = v.model
                self.detail = detail
                self.smt2 = v.smt2
        elif v.status == "undecided":
            if self.status == "proved":
                self.status = "undecided"
                self.detail = detail or v.reason
                self.smt2 = v.smt2


@dataclass
class FunctionReport:
    key: str
    span: Tuple[int, int]
    source_hash: str
    obligations: Dict[str, Obligation] = field(default_factory=dict)
    paths: int = 0
    feasibility_checks: int = 0
    ledger: set = field(default_factory=set)
    errors: List[str] = field(default_factory=list)
    case_hits: Dict[str, int] = field(default_factory=dict)
    wall_s: float = 0.0
    samples: List[str] = field(default_factory=list)

    def ob(self, oid, kind, public, props) -> Obligation:
        o = self.obligations.get(oid)
        if o is None:
            o = Obligation(oid, self.key, kind, public, list(props))
            self.obligations[oid] = o
        return o


def base_assumptions(heap: Heap) -> List[Any]:
    out = [S.DFLT_MODE_RANGE, z3.Distinct(*M.ROOTS)]
    for r in M.ROOTS:
        out.append(heap.get("$alloc", r))
    return out


def alloc_args(heap: Heap, args: Dict[str, V]) -> List[Any]:
    out = []

    def rec(v):
        from .sym import VTuple, VList
        if isinstance(v, VObj):
            out.append(heap.get("$alloc", v.t))
        elif isinstance(v, (VTuple, VList)):
            for i in v.items:
                rec(i)
    for v in args.values():
        rec(v)
    return out


def verify_function(pkg: Package, contract: Contract,
                    summaries: Dict[str, Contract],
                    schema, max_paths: int = 3000,
                    inline_only: Optional[set] = None,
                    only_scenarios: Optional[set] = None) -> FunctionReport:
    fi = pkg.func(contract.key)
    rep = FunctionReport(contract.key, fi.span(), fi.source_hash())
    t0 = time.time()
    from .extract import _deco_names
    odd = [d for d in _deco_names(fi.node)
           if d not in ("property", "staticmethod", "abstractmethod")]
    if odd or len(fi.node.decorator_list) != len(_deco_names(fi.node)):
        o = rep.ob(f"{contract.key}/*", "engine", contract.public,
                   contract.props)
        o.status = "undecided"
        o.detail = f"Unsupported: decorator(s) {odd or '?'} are not modelled"
        return rep
    for sc in contract.scenarios():
        if only_scenarios is not None and sc.name not in only_scenarios:
            continue
        try:
            _verify_scenario(pkg, fi, contract, sc, summaries, schema, rep,
                             max_paths, inline_only or set())
        except Unsupported as u:
            o = rep.ob(f"{contract.key}/{sc.name}/*", "engine", contract.public,
                       contract.props)
            o.status = "undecided"
            o.detail = f"Unsupported: {u}"
    rep.wall_s = time.time() - t0
    return rep


def _verify_scenario(pkg, fi, contract: Contract, sc: Scenario, summaries,
                     schema, rep: FunctionReport, max_paths: int,
                     inline_only: set) -> None:
    ex = Explorer(max_paths=max_paths)
    prefix_id = f"{contract.key}/{sc.name}"
    first = True
    while True:
        prefix = ex.next_prefix()
        if prefix is None:
            break
        heap = Heap(schema)
        path = Path(ex, prefix, heap)
        interp = Interp(pkg, path, summaries, top_key=contract.key)
        interp.inline_only = inline_only
        interp.loop_specs = LOOP_SPECS
        outcome: Optional[Outcome] = None
        try:
            for a in base_assumptions(heap):
                path.assume(a)
            args = sc.make_args(interp)
            self_obj = None
            if sc.constructing:
                self_obj = interp.alloc(sc.constructing, "self")
                interp.bm.init_unset(self_obj)
                args = dict({"self": self_obj}, **args)
            for a in alloc_args(heap, args):
                path.assume(a)
            pre = heap.copy()
            ctx = Ctx(interp, args, pre)
            requires, cases = contract.spec(ctx)
            for r in requires:
                path.assume(r)
            if first:
                first = False
                _meta_obligations(contract, sc, path, requires, cases, rep,
                                  prefix_id)
            if not path.feasible():
                continue
            try:
                pos = list(args.values())
                v = interp.run_function(fi, pos, dict(sc.kwargs))
                if sc.constructing:
                    v = self_obj
                if isinstance(v, VGen):
                    # a returned generator expression is consumed at the return
                    # point, while the path is still being explored (its filter
                    # conditions are decisions of this path); sound for
                    # generators over immutable items, which is all term.py has
                    v = VTuple(list(v.iterator()))
                outcome = Outcome("return", v, None, path.heap)
            except PyExc as e:
                outcome = Outcome("raise", None, e.exc, path.heap)
        except Infeasible:
            continue
        except StopPath:
            # the path ends at a loop cut / unmatched callee case: only its
            # intermediate obligations count
            rep.paths += 1
            rep.ledger |= path.ledger
            for oid, opc, goal, why in path.side_obligations:
                o = rep.ob(f"{prefix_id}/{oid}", "requires", False,
                           contract.props)
                o.merge(check_unsat(opc + [z3.Not(goal)], PROOF_TIMEOUT_MS), why)
            continue
        except Unsupported as u:
            o = rep.ob(f"{prefix_id}/*", "engine", contract.public,
                       contract.props)
            o.status = "undecided"
            o.detail = f"Unsupported on a path: {u}"
            rep.paths += 1
            continue
        rep.paths += 1
        rep.ledger |= path.ledger
        _check_path(contract, sc, ctx, cases, outcome, path, rep, prefix_id)
    rep.feasibility_checks += ex.n_checks


def _meta_obligations(contract, sc, path, requires, cases, rep, prefix_id):
    # vacuity of the precondition
    o = rep.ob(f"{prefix_id}/requires-satisfiable", "vacuity", False,
               contract.props)
    s = z3.Solver()
    s.set("timeout", 10000)
    s.add(*path.pc)
    r = s.check()
    o.n_vcs += 1
    if r == z3.unsat:
        o.status = "refuted"
        o.detail = "precondition is contradictory (vacuous contract)"
    elif r == z3.unknown:
        o.status = "proved"      # cannot show vacuity; not a verdict
        o.detail = "satisfiability unknown"
    # coverage: requires => OR(when)
    o = rep.ob(f"{prefix_id}/coverage", "coverage", False, contract.props)
    v = check_unsat(path.pc + [z3.Not(z3.Or([c.when for c in cases]))],
                    PROOF_TIMEOUT_MS)
    o.merge(v, "an input satisfying the precondition falls under no case")
    for c in cases:
        # a case whose guard is inconsistent with the precondition in this
        # scenario is not applicable here (not a vacuity problem)
        s2 = z3.Solver()
        s2.set("timeout", 3000)
        s2.add(*path.pc)
        s2.add(c.when)
        if s2.check() != z3.unsat:
            rep.case_hits.setdefault(f"{prefix_id}/{c.name}", 0)


def _frame_goals(ctx: Ctx, out: Outcome, case: Case) -> List[Tuple[str, Any]]:
    pre, post = ctx.pre, out.heap
    goals = []
    o = z3.Const("frame!o", Obj)
    alloc_pre = z3.Select(pre.arr("$alloc"), o)
    for name, arr in post.arrays.items():
        if name == "$alloc":
            continue
        if any(name == m or name.startswith(m + "#") or
               (m.endswith("*") and name.startswith(m[:-1]))
               for m in case.modifies):
            continue
        parr = pre.arrays.get(name)
        if parr is None:
            parr = pre.arr(name)
        if arr is parr or arr.eq(parr):
            continue
        goals.append((name, z3.Implies(alloc_pre,
                                       z3.Select(arr, o) == z3.Select(parr, o))))
    return goals


def _check_path(contract: Contract, sc: Scenario, ctx: Ctx, cases: List[Case],
                out: Outcome, path: Path, rep: FunctionReport,
                prefix_id: str) -> None:
    # evaluate every clause once first: clauses may instantiate lemma-library
    # facts (path.assume), which must be part of the path condition below
    for case in cases:
        for _cn, fn in case.ensures:
            try:
                fn(ctx, out)
            except Exception:
                pass
    pc = list(path.pc)
    # intermediate obligations (callee preconditions)
    for oid, opc, goal, why in path.side_obligations:
        o = rep.ob(f"{prefix_id}/{oid}", "requires", False, contract.props)
        o.merge(check_unsat(opc + [z3.Not(goal)], PROOF_TIMEOUT_MS), why)
    if len(rep.samples) < 3:
        rep.samples.append(_describe(out, path))
    for case in cases:
        cid = f"{prefix_id}/{case.name}"
        props = list(case.props) or contract.props
        public = contract.public and case.public
        s = z3.Solver()
        s.set("timeout", 5000)
        s.add(*pc)
        s.add(case.when)
        if s.check() == z3.unsat:
            continue
        rep.case_hits[cid] = rep.case_hits.get(cid, 0) + 1
        base = pc + [case.when]
        # outcome kind
        o = rep.ob(f"{cid}/outcome", "outcome", public, props)
        if case.raises is not None:
            ok = out.kind == "raise" and any(
                exc_isa(out.exc.cls, alt) for alt in case.raises.split("|"))
            want = f"raises {case.raises}"
        else:
            ok = out.kind == "return"
            want = "returns"
        if ok:
            o.n_vcs += 1
        else:
            got = f"raises {out.exc.cls}" if out.kind == "raise" else "returns"
            v = check_unsat(base, PROOF_TIMEOUT_MS)   # must be infeasible
            o.merge(v, f"case demands '{want}', a path {got}")
            continue
        # clauses
        for cname, fn in case.ensures:
            o = rep.ob(f"{cid}/{cname}", "ensures", public, props)
            try:
                goal = fn(ctx, out)
            except Unsupported as u:
                o.status = "undecided" if o.status == "proved" else o.status
                o.detail = f"Unsupported in clause: {u}"
                continue
            if isinstance(goal, bool):
                goal = z3.BoolVal(goal)
            o.merge(check_unsat(base + [z3.Not(goal)], PROOF_TIMEOUT_MS),
                    f"clause '{cname}' of case '{case.name}' on a "
                    f"{_describe(out, path)}"
                    + (f" = {out.value!r}"[:200] if out.kind == "return" else ""))
        # frame
        fo = rep.ob(f"{cid}/frame", "frame", public, props)
        goals = _frame_goals(ctx, out, case)
        if not goals:
            fo.n_vcs += 1
        for name, g in goals:
            fo.merge(check_unsat(base + [z3.Not(g)], PROOF_TIMEOUT_MS),
                     f"heap array {name} changed on a pre-allocated object")


def _describe(out: Outcome, path: Path) -> str:
    if out.kind == "raise":
        res = f"raises {out.exc.cls}"
    else:
        res = f"returns {type(out.value).__name__}"
    return f"path with {len(path.pc)} conjuncts, {len(path.decisions)} " \
           f"decisions: {res}"
