"""FRAME obligations from the whole-package scan (DESIGN.md 3.1): every store
to a representation field / raw instance creation must sit inside one of the
functions that own it (all of them under contract or modelled constructors).
A failing FRAME obligation is *undecided* evidence (a refactoring may move a
store legitimately); it triggers the bounded stand-ins, never a violation by
itself."""
from __future__ import annotations

from typing import Dict, List, Set

from .extract import Package, frame_scan
from .verify import Obligation

OWNERS: Dict[str, Set[str]] = {
    "_amount": {"Quantity.__new__", "Quantity.allocate"},
    "_unit": {"Quantity.__new__"},
    "raw-instance": {"Quantity.__new__", "QuantityMeta._make_unit",
                     "QuantityMeta.__new__", "ClassWithDefinitionMeta.__new__"},
    "_equiv": {"QuantityMeta._make_unit", "QuantityMeta._make_ref_unit"},
    "_definition": {"QuantityMeta._make_unit", "ClassWithDefinitionMeta.__new__"},
    "_qty_cls": {"QuantityMeta._make_unit"},
    "_symbol": {"QuantityMeta._make_unit"},
    "_ref_unit": {"QuantityMeta.__new__"},
    "_quantum": {"QuantityMeta.__new__"},
    "_reg_id": {"QuantityMeta.__new__", "QuantityMeta.__init__"},
    "_unit_map": {"QuantityMeta.__new__", "QuantityMeta.__init__",
                  "QuantityMeta._make_unit", "TableConverter.__init__"},
    "_converters": {"QuantityMeta.__init__"},
    "_converters.append": {"QuantityMeta.register_converter",
                           "MoneyMeta.register_converter"},
    "_converters.remove": {"QuantityMeta.remove_converter"},
    "_converters.pop": {"MoneyMeta.remove_converter"},
    "_smallest_fraction": {"MoneyMeta.new_unit"},
    "_unit_multiple": {"ExchangeRate.__init__"},
    "_term_amount": {"ExchangeRate.__init__"},
    "_unit_currency": {"ExchangeRate.__init__"},
    "_term_currency": {"ExchangeRate.__init__"},
    "_rate_dict": {"MoneyConverter.__init__"},
    "_rate_dict.update": {"MoneyConverter.update"},
    "_type_of_validity": {"MoneyConverter.__init__", "MoneyConverter.update"},
    "_base_currency": {"MoneyConverter.__init__"},
    "_op_cache": {"Unit.__mul__", "Unit.__truediv__"},
    "_SYMBOL_UNIT_MAP": {"QuantityMeta._make_unit"},
    "_TERM_UNIT_MAP.register_item": {"QuantityMeta._make_unit"},
    "_item_def_map": {"DefinedItemRegistry.__init__",
                      "DefinedItemRegistry.register_item"},
    "_item_list": {"DefinedItemRegistry.__init__"},
    "_item_list.append": {"DefinedItemRegistry.register_item"},
    "_items": {"Term.__init__"},
    "_normalized": {"Term.__init__", "Term.normalized"},
    "_hash": {"Term.__hash__"},
    "_currency_dict": {"<module>"},
}


def frame_obligations(pkg: Package, fields: List[str]) -> List[Obligation]:
    if not fields:
        return []
    sites = frame_scan(pkg)
    out = []
    for f in fields:
        o = Obligation(f"FRAME/{f}", "<package>", "frame-scan", False, [])
        mine = [s for s in sites if s["what"] == f or
                (f == "raw-instance" and s["kind"] == "raw-new")]
        bad = [s for s in mine if s["func"] not in OWNERS.get(f, set())]
        o.n_vcs = max(1, len(mine))
        if bad:
            o.status = "undecided"
            o.detail = "store outside the owning functions: " + \
                ", ".join(f"{s['module']}:{s['func']}:{s['line']}" for s in bad)
        else:
            o.detail = f"{len(mine)} store sites, all inside " \
                       f"{sorted(OWNERS.get(f, []))}"
        out.append(o)
    return out
