"""Static model of the object universe of mamrhein/quantity for pyvc:
object classes, their representation fields (checked against the real source
by the frame scan), dictionary kinds, global roots and spec-level ghost fields.
"""
from __future__ import annotations

from typing import Any, Dict, Tuple

import z3

from .sym import (Obj, Schema, TBool, TInt, TObj, TOpt, TRat, TStr, TTuple,
                  TValidity, Validity, V, VObj, VStr, VTuple, VFunc, VInt,
                  VNone, VDate, Unsupported, validity_term)

# klass -> (module, python class) whose methods the interpreter looks up
KLASS_PY: Dict[str, Tuple[str, str]] = {
    "Unit": ("quantity", "Unit"),
    "Currency": ("quantity.money", "Currency"),
    "Qty": ("quantity", "Quantity"),
    "QtyCls": ("quantity", "QuantityMeta"),
    "MoneyCls": ("quantity.money", "MoneyMeta"),
    "Term": ("quantity.term", "Term"),
    "Registry": ("quantity.registry", "DefinedItemRegistry"),
    "TypeRegistry": ("quantity.registry", "DefinedItemRegistry"),
    "SIPrefix": ("quantity.si_prefixes", "SIPrefix"),
    "Converter": ("quantity.converter", "Converter"),
    "TableConverter": ("quantity.converter", "TableConverter"),
    "ExchangeRate": ("quantity.money", "ExchangeRate"),
    "MoneyConverter": ("quantity.money", "MoneyConverter"),
}

OPS = {"operator.mul": 0, "operator.truediv": 1, "operator.pow": 2,
       "operator.lt": 10, "operator.le": 11, "operator.gt": 12,
       "operator.ge": 13, "operator.floordiv": 3, "operator.mod": 4}

# type-of-validity codes (MoneyConverter._type_of_validity holds a type)
TYPE_CODES = {"NoneType": 1, "int": 2, "tuple": 3, "date": 4, "datetime": 5}


def _mk(name, *fields):
    d = z3.Datatype(name)
    d.declare("mk_" + name, *fields)
    return d.create()


OpKey = _mk("OpKey", ("ok_op", z3.IntSort()), ("ok_a", Obj), ("ok_b", Obj))
UPair = _mk("UPair", ("up_a", Obj), ("up_b", Obj))
RateKey = _mk("RateKey", ("rk_v", Validity), ("rk_c", Obj))
# dimension vectors: elements of the free abelian group over base elements,
# as an uninterpreted sort with the group operations as function symbols; the
# few group facts the proofs need are ground instances (lemma library, A3)
VecSort = z3.DeclareSort("Vec")
Den = _mk("Den", ("den_num", z3.RealSort()), ("den_vec", VecSort))

ZERO_VEC = z3.Const("vzero", VecSort)
vadd = z3.Function("vadd", VecSort, VecSort, VecSort)
vscale = z3.Function("vscale", VecSort, z3.IntSort(), VecSort)
vunit = z3.Function("vunit", Obj, VecSort)


def unit_vec(o):
    return vunit(o)


# dict kinds: name -> (key sort, value type)
DICT_KINDS: Dict[str, Tuple[Any, Any]] = {
    "sym": (z3.StringSort(), TObj("Unit")),
    "op": (OpKey, TOpt(TTuple((TRat(), TOpt(TObj("Unit")))))),
    "den": (Den, TInt()),
    "upair": (UPair, TTuple((TRat(), TRat()))),
    "rate": (RateKey, TObj("ExchangeRate")),
    "ccy": (z3.StringSort(),
            TTuple((TStr(), TInt(), TStr(), TInt(), TObj("Opaque")))),
}

# list kinds: name -> element klass
# list kinds held as (length, Int -> Obj array) instead of a z3 sequence:
# only indexing and append are used on them, arrays are far cheaper to reason
# about than sequences
ARRAY_LISTS = {"items", "buckets", "cls_items", "cls_buckets"}
LIST_KINDS = {"conv": "AnyConv", "items": "Unit", "buckets": "List:items",
              "cls_items": "QtyCls", "cls_buckets": "List:cls_items"}


def make_schema() -> Schema:
    s = Schema()
    # quantity instances
    s.declare("Qty", "_amount", TRat())
    s.declare("Qty", "_unit", TObj("Unit"))
    s.declare("Qty", "__class__", TObj("QtyCls"))
    # units / currencies
    s.declare("Unit", "_qty_cls", TObj("QtyCls"))
    s.declare("Unit", "_symbol", TStr())
    s.declare("Unit", "_name", TOpt(TStr()))
    s.declare("Unit", "_equiv", TOpt(TRat()))
    s.declare("Unit", "_definition", TOpt(TObj("Term")))
    s.declare("Unit", "_smallest_fraction", TRat(), maybe_unset=True)
    s.declare("Unit", "$is_currency", TBool())
    # quantity classes
    s.declare("QtyCls", "_ref_unit", TOpt(TObj("Unit")))
    s.declare("QtyCls", "_quantum", TOpt(TRat()))
    s.declare("QtyCls", "_unit_map", TObj("Dict:sym"), maybe_unset=True)
    s.declare("QtyCls", "_converters", TObj("List:conv"), maybe_unset=True)
    s.declare("QtyCls", "_reg_id", TInt(), maybe_unset=True)
    s.declare("QtyCls", "_definition", TOpt(TObj("Term")))
    s.declare("QtyCls", "__name__", TStr())
    s.declare("QtyCls", "$unit_cls_is_currency", TBool())
    # terms (ghost denotation; real fields are only touched inside term.py)
    s.declare("Term", "$num", TRat())
    s.declare_raw("Term.$vec", VecSort)
    s.declare("Term", "$len", TInt())
    s.declare("Term", "$is_norm", TBool())
    # registries
    s.declare("Registry", "_unique_items", TBool())
    s.declare("Registry", "_item_def_map", TObj("Dict:den"))
    s.declare("Registry", "_item_list", TObj("List:buckets"))

    # generic containers
    s.declare_raw("List.$seq", z3.SeqSort(Obj))
    s.declare_raw("AList.$arr", z3.ArraySort(z3.IntSort(), Obj))
    s.declare_raw("AList.$len", z3.IntSort())
    for kind, (ks, vty) in DICT_KINDS.items():
        s.declare_raw(f"Dict:{kind}.$dom", z3.ArraySort(ks, z3.BoolSort()))
        from .sym import sorts_of, suffixes_of
        for suf, srt in zip(suffixes_of(vty), sorts_of(vty)):
            s.declare_raw(f"Dict:{kind}.$val{suf}", z3.ArraySort(ks, srt))
    # SI prefix
    s.declare("SIPrefix", "exp", TInt())
    s.declare("SIPrefix", "name", TStr())
    s.declare("SIPrefix", "abbr", TStr())
    # converters
    s.declare("TableConverter", "_unit_map", TObj("Dict:upair"))
    s.declare("AnyConv", "$conv_kind", TInt())   # 0 opaque callable, 1 Table, 2 Money
    # exchange rates
    s.declare("ExchangeRate", "_unit_currency", TObj("Unit"))
    s.declare("ExchangeRate", "_term_currency", TObj("Unit"))
    s.declare("ExchangeRate", "_unit_multiple", TRat())
    s.declare("ExchangeRate", "_term_amount", TRat())
    # money converter
    s.declare("MoneyConverter", "_base_currency", TObj("Unit"))
    s.declare("MoneyConverter", "_rate_dict", TObj("Dict:rate"))
    s.declare("MoneyConverter", "_type_of_validity", TOpt(TInt()))
    s.declare("MoneyConverter", "$dflt_y", TInt())
    s.declare("MoneyConverter", "$dflt_m", TInt())
    s.declare("MoneyConverter", "$dflt_d", TInt())
    s.declare("MoneyConverter", "$dflt_given", TBool())
    # allocation ghost
    s.declare_raw("$alloc", z3.BoolSort())
    return s


# global roots ---------------------------------------------------------------
G_SYMMAP = z3.Const("G_SYMBOL_UNIT_MAP", Obj)
G_OPCACHE = z3.Const("G_UNIT_OP_CACHE", Obj)
G_TERMMAP = z3.Const("G_TERM_UNIT_MAP", Obj)
G_TYPEREG = z3.Const("G_TYPE_REGISTRY", Obj)
G_CCYDICT = z3.Const("G_CURRENCY_DICT", Obj)
C_QUANTITY = z3.Const("C_Quantity", Obj)
C_MONEY = z3.Const("C_Money", Obj)
from .sym import register_old as _register_old      # noqa: E402
for _r in (G_SYMMAP, G_OPCACHE, G_TERMMAP, G_TYPEREG, G_CCYDICT, C_QUANTITY,
           C_MONEY):
    _register_old(_r)
ROOTS = [G_SYMMAP, G_OPCACHE, G_TERMMAP, G_TYPEREG, G_CCYDICT, C_QUANTITY,
         C_MONEY]

# (module, name) of module-level variables -> value
GLOBAL_VARS: Dict[Tuple[str, str], V] = {
    ("quantity", "_UNIT_OP_CACHE"): VObj(G_OPCACHE, "Dict:op"),
    ("quantity", "_SYMBOL_UNIT_MAP"): VObj(G_SYMMAP, "Dict:sym"),
    ("quantity", "_TERM_UNIT_MAP"): VObj(G_TERMMAP, "Registry"),
    ("quantity.money.currencies", "_currency_dict"): VObj(G_CCYDICT, "Dict:ccy"),
}
# class-level variables
CLASS_VARS: Dict[Tuple[str, str], V] = {
    ("QuantityMeta", "_registry"): VObj(G_TYPEREG, "TypeRegistry"),
}


FIELD_HOOKS: Dict[Tuple[str, str], Any] = {}


def to_key(kind: str, v: V, interp) -> Any:
    """python-level key value -> z3 term of the dict kind's key sort."""
    if kind in ("sym", "ccy"):
        if isinstance(v, VStr):
            return v.t
        raise Unsupported(f"dict[{kind}] key {v!r}")
    if kind == "op":
        if isinstance(v, VTuple) and len(v.items) == 3 and \
                isinstance(v.items[0], VFunc) and v.items[0].name in OPS and \
                all(isinstance(i, VObj) for i in v.items[1:]):
            return OpKey.mk_OpKey(z3.IntVal(OPS[v.items[0].name]),
                                  v.items[1].t, v.items[2].t)
        raise Unsupported(f"dict[op] key {v!r}")
    if kind == "den":
        if isinstance(v, VObj) and v.klass == "Term":
            # keyed by Term.__hash__/__eq__: by the C07 contract equal terms
            # are exactly those with equal denotation
            interp.path.ledger.add("C07: Term.__eq__/__hash__ as dict key "
                                   "<=> equal denotation")
            return term_den(interp.path.heap, v.t)
        raise Unsupported(f"dict[den] key {v!r}")
    if kind == "upair":
        if isinstance(v, VTuple) and len(v.items) == 2 and \
                all(isinstance(i, VObj) for i in v.items):
            return UPair.mk_UPair(v.items[0].t, v.items[1].t)
        raise Unsupported(f"dict[upair] key {v!r}")
    if kind == "rate":
        if isinstance(v, VTuple) and len(v.items) == 2 and \
                isinstance(v.items[1], VObj):
            return RateKey.mk_RateKey(validity_term(v.items[0]), v.items[1].t)
        raise Unsupported(f"dict[rate] key {v!r}")
    raise Unsupported(kind)


def term_den(heap, t):
    return Den.mk_Den(heap.get("Term.$num", t), heap.get("Term.$vec", t))
