"""L0 -- mechanical extraction of the real source (DESIGN.md section 3.1).

Parses every module of /repo/src/quantity with `ast` on every run and hands the
*unmodified* statement lists of the functions under contract to the VC
generator.  What extraction drops (exhaustive): docstrings, comments, type
annotations, `@overload` stubs, `typing.cast(T, e)` -> `e` (done by the
interpreter), `if TYPE_CHECKING:` blocks.  Nothing is added.
"""
from __future__ import annotations

import ast
import hashlib
import os
from dataclasses import dataclass, field
from typing import Dict, List, Optional, Tuple

REPO_SRC = os.environ.get("PYVC_REPO_SRC", "/repo/src")
PKG = "quantity"


@dataclass
class FuncInfo:
    module: str
    qualname: str              # "Quantity.convert" or "_floordiv_rounded"
    node: ast.FunctionDef
    cls: Optional["ClassInfo"] = None
    is_property: bool = False
    is_static: bool = False

    @property
    def key(self) -> str:
        return f"{self.module}:{self.qualname}"

    def source_hash(self) -> str:
        return hashlib.sha256(ast.dump(self.node).encode()).hexdigest()[:16]

    def span(self) -> Tuple[int, int]:
        return self.node.lineno, self.node.end_lineno or self.node.lineno


@dataclass
class ClassInfo:
    module: str
    name: str
    node: ast.ClassDef
    bases: List[str]
    metaclass: Optional[str]
    keywords: Dict[str, ast.expr]
    funcs: Dict[str, FuncInfo] = field(default_factory=dict)
    aliases: Dict[str, str] = field(default_factory=dict)       # name -> name
    assigns: Dict[str, ast.expr] = field(default_factory=dict)  # class-level
    slots: List[str] = field(default_factory=list)


@dataclass
class ModuleInfo:
    name: str                  # "quantity", "quantity.term", ...
    path: str
    tree: ast.Module
    source: str
    funcs: Dict[str, FuncInfo] = field(default_factory=dict)
    classes: Dict[str, ClassInfo] = field(default_factory=dict)
    imports: Dict[str, Tuple[str, Optional[str]]] = field(default_factory=dict)
    assigns: Dict[str, ast.expr] = field(default_factory=dict)
    body: List[ast.stmt] = field(default_factory=list)


def _is_overload(fn: ast.FunctionDef) -> bool:
    for d in fn.decorator_list:
        if isinstance(d, ast.Name) and d.id == "overload":
            return True
        if isinstance(d, ast.Attribute) and d.attr == "overload":
            return True
    return False


def _deco_names(fn: ast.FunctionDef) -> List[str]:
    out = []
    for d in fn.decorator_list:
        if isinstance(d, ast.Name):
            out.append(d.id)
        elif isinstance(d, ast.Attribute):
            out.append(d.attr)
    return out


def _strip_docstring(body: List[ast.stmt]) -> List[ast.stmt]:
    if body and isinstance(body[0], ast.Expr) and \
            isinstance(body[0].value, ast.Constant) and \
            isinstance(body[0].value.value, str):
        return body[1:] or [ast.Pass()]
    return body


def _resolve_rel(modname: str, is_pkg: bool, level: int,
                 target: Optional[str]) -> str:
    parts = modname.split(".")
    if not is_pkg:
        parts = parts[:-1]
    if level > 1:
        parts = parts[: len(parts) - (level - 1)]
    if target:
        parts = parts + target.split(".")
    return ".".join(parts)


class Package:
    def __init__(self, root: str = REPO_SRC):
        self.root = root
        self.modules: Dict[str, ModuleInfo] = {}
        self._load()

    # ------------------------------------------------------------------
    def _load(self) -> None:
        base = os.path.join(self.root, PKG)
        for dirpath, _dirs, files in os.walk(base):
            for fn in sorted(files):
                if not fn.endswith(".py"):
                    continue
                path = os.path.join(dirpath, fn)
                rel = os.path.relpath(path, self.root)[:-3]
                parts = rel.split(os.sep)
                is_pkg = parts[-1] == "__init__"
                if is_pkg:
                    parts = parts[:-1]
                modname = ".".join(parts)
                with open(path, encoding="utf-8") as fh:
                    src = fh.read()
                tree = ast.parse(src, filename=path)
                mi = ModuleInfo(modname, path, tree, src)
                self._index_module(mi, is_pkg)
                self.modules[modname] = mi

    def _index_module(self, mi: ModuleInfo, is_pkg: bool) -> None:
        def walk(stmts: List[ast.stmt]) -> None:
            for st in stmts:
                if isinstance(st, ast.If):
                    t = st.test
                    # drop `if TYPE_CHECKING:`; keep `if not TYPE_CHECKING:`
                    if isinstance(t, ast.Name) and t.id == "TYPE_CHECKING":
                        walk(st.orelse)
                        continue
                    if isinstance(t, ast.UnaryOp) and \
                            isinstance(t.op, ast.Not) and \
                            isinstance(t.operand, ast.Name) and \
                            t.operand.id == "TYPE_CHECKING":
                        continue    # only re-defines type aliases
                    if isinstance(t, ast.Compare) and \
                            "version_info" in ast.dump(t):
                        walk(st.body)
                        continue
                    mi.body.append(st)
                    continue
                if isinstance(st, ast.FunctionDef):
                    if _is_overload(st):
                        continue
                    mi.funcs[st.name] = FuncInfo(mi.name, st.name, st)
                elif isinstance(st, ast.ClassDef):
                    mi.classes[st.name] = self._index_class(mi, st)
                elif isinstance(st, ast.ImportFrom):
                    if st.level:
                        src_mod = _resolve_rel(mi.name, is_pkg, st.level,
                                               st.module)
                    else:
                        src_mod = st.module or ""
                    for a in st.names:
                        mi.imports[a.asname or a.name] = (src_mod, a.name)
                elif isinstance(st, ast.Import):
                    for a in st.names:
                        mi.imports[a.asname or a.name.split(".")[0]] = \
                            (a.name, None)
                elif isinstance(st, ast.Assign):
                    for tg in st.targets:
                        if isinstance(tg, ast.Name):
                            mi.assigns[tg.id] = st.value
                    mi.body.append(st)
                elif isinstance(st, ast.AnnAssign):
                    if isinstance(st.target, ast.Name) and st.value is not None:
                        mi.assigns[st.target.id] = st.value
                    mi.body.append(st)
                else:
                    mi.body.append(st)
        walk(mi.tree.body)

    def _index_class(self, mi: ModuleInfo, node: ast.ClassDef) -> ClassInfo:
        bases = []
        for b in node.bases:
            if isinstance(b, ast.Name):
                bases.append(b.id)
            elif isinstance(b, ast.Subscript) and isinstance(b.value, ast.Name):
                bases.append(b.value.id)
            elif isinstance(b, ast.Attribute):
                bases.append(b.attr)
        metaclass = None
        kws: Dict[str, ast.expr] = {}
        for kw in node.keywords:
            if kw.arg == "metaclass" and isinstance(kw.value, ast.Name):
                metaclass = kw.value.id
            elif kw.arg:
                kws[kw.arg] = kw.value
        ci = ClassInfo(mi.name, node.name, node, bases, metaclass, kws)
        for st in node.body:
            if isinstance(st, ast.FunctionDef):
                if _is_overload(st):
                    continue
                decos = _deco_names(st)
                fi = FuncInfo(mi.name, f"{node.name}.{st.name}", st, ci,
                              is_property="property" in decos,
                              is_static="staticmethod" in decos)
                if "setter" in decos:
                    continue
                ci.funcs[st.name] = fi
            elif isinstance(st, ast.Assign):
                for tg in st.targets:
                    if isinstance(tg, ast.Name):
                        if isinstance(st.value, ast.Name) and \
                                st.value.id in ci.funcs:
                            ci.aliases[tg.id] = st.value.id
                        else:
                            ci.assigns[tg.id] = st.value
                        if tg.id == "__slots__":
                            try:
                                ci.slots = list(ast.literal_eval(st.value))
                            except Exception:
                                pass
            elif isinstance(st, ast.AnnAssign):
                if isinstance(st.target, ast.Name) and st.value is not None:
                    ci.assigns[st.target.id] = st.value
        return ci

    # ------------------------------------------------------------------
    def find_class(self, name: str, from_module: Optional[str] = None) \
            -> Optional[ClassInfo]:
        if from_module and from_module in self.modules:
            mi = self.modules[from_module]
            if name in mi.classes:
                return mi.classes[name]
            if name in mi.imports:
                src, orig = mi.imports[name]
                if src in self.modules and orig:
                    return self.find_class(orig, src)
        for mi in self.modules.values():
            if name in mi.classes:
                return mi.classes[name]
        return None

    def mro(self, ci: ClassInfo) -> List[ClassInfo]:
        out = [ci]
        for b in ci.bases:
            bc = self.find_class(b, ci.module)
            if bc is not None:
                for c in self.mro(bc):
                    if c not in out:
                        out.append(c)
        return out

    def lookup(self, ci: ClassInfo, name: str):
        """Follow the written MRO; returns ('func', FuncInfo) |
        ('assign', ClassInfo, expr) | None.  Class-level aliases
        (`__radd__ = __add__`) are followed."""
        for c in self.mro(ci):
            n = c.aliases.get(name, name)
            if n in c.funcs:
                return ("func", c.funcs[n])
            if name in c.assigns:
                return ("assign", c, c.assigns[name])
        return None

    def func(self, key: str) -> FuncInfo:
        """key = 'module:qualname'"""
        mod, qual = key.split(":")
        mi = self.modules[mod]
        if "." in qual:
            cn, fn = qual.split(".", 1)
            ci = mi.classes[cn]
            fn = ci.aliases.get(fn, fn)
            return ci.funcs[fn]
        return mi.funcs[qual]

    def all_funcs(self) -> List[FuncInfo]:
        out = []
        for mi in self.modules.values():
            out.extend(mi.funcs.values())
            for ci in mi.classes.values():
                out.extend(ci.funcs.values())
        return out


def body_of(fi: FuncInfo) -> List[ast.stmt]:
    return _strip_docstring(fi.node.body)


# ----------------------------------------------------------------------
# Frame scans (whole package): every store to a representation field must sit
# inside a function that is under contract (or explicitly listed).
REP_FIELDS = {
    "_amount", "_unit", "_equiv", "_definition", "_qty_cls", "_symbol",
    "_ref_unit", "_quantum", "_smallest_fraction", "_unit_multiple",
    "_term_amount", "_rate_dict", "_type_of_validity", "_converters",
    "_unit_map", "_unit_currency", "_term_currency", "_base_currency",
    "_reg_id", "_items", "_normalized", "_hash", "_item_def_map",
    "_item_list",
}
GLOBAL_DIRS = {"_UNIT_OP_CACHE", "_SYMBOL_UNIT_MAP", "_TERM_UNIT_MAP",
               "_op_cache", "_currency_dict"}
MUTATORS = {"append", "pop", "remove", "update", "clear", "extend", "insert",
            "setdefault", "popitem", "sort", "reverse", "__setitem__",
            "__delitem__", "register_item"}


def frame_scan(pkg: Package) -> List[dict]:
    """Return every store site: dict(module, func, line, what)."""
    sites: List[dict] = []

    def base_name(e: ast.expr) -> Optional[str]:
        while isinstance(e, (ast.Subscript, ast.Attribute)):
            if isinstance(e, ast.Attribute) and e.attr in REP_FIELDS:
                return e.attr
            e = e.value
        if isinstance(e, ast.Name) and e.id in GLOBAL_DIRS:
            return e.id
        return None

    def scan(mod: str, fname: str, node: ast.AST) -> None:
        for n in ast.walk(node):
            tgts: List[ast.expr] = []
            if isinstance(n, ast.Assign):
                tgts = list(n.targets)
            elif isinstance(n, (ast.AugAssign, ast.AnnAssign)):
                if isinstance(n, ast.AnnAssign) and n.value is None:
                    continue
                tgts = [n.target]
            elif isinstance(n, ast.Delete):
                tgts = list(n.targets)
            for tg in tgts:
                for t in ast.walk(tg):
                    if isinstance(t, ast.Attribute) and t.attr in REP_FIELDS \
                            and isinstance(t.ctx, (ast.Store, ast.Del)):
                        sites.append(dict(module=mod, func=fname,
                                          line=t.lineno, what=t.attr,
                                          kind="attr-store"))
                    elif isinstance(t, ast.Subscript) and \
                            isinstance(t.ctx, (ast.Store, ast.Del)):
                        b = base_name(t.value)
                        if b:
                            sites.append(dict(module=mod, func=fname,
                                              line=t.lineno, what=b,
                                              kind="item-store"))
            if isinstance(n, ast.Call) and isinstance(n.func, ast.Attribute) \
                    and n.func.attr in MUTATORS:
                b = base_name(n.func.value)
                if b:
                    sites.append(dict(module=mod, func=fname, line=n.lineno,
                                      what=f"{b}.{n.func.attr}",
                                      kind="mutator-call"))
            if isinstance(n, ast.Call) and isinstance(n.func, ast.Attribute) \
                    and n.func.attr == "__new__":
                sites.append(dict(module=mod, func=fname, line=n.lineno,
                                  what="raw-instance", kind="raw-new"))

    for mi in pkg.modules.values():
        for fi in mi.funcs.values():
            scan(mi.name, fi.qualname, fi.node)
        for ci in mi.classes.values():
            for fi in ci.funcs.values():
                scan(mi.name, fi.qualname, fi.node)
        for st in mi.body:
            scan(mi.name, "<module>", st)
    return sites


if __name__ == "__main__":
    p = Package()
    for m in p.modules.values():
        print(m.name, len(m.funcs), {c: len(ci.funcs) for c, ci in m.classes.items()})
    for s in frame_scan(p):
        print(s)
