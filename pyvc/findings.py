"""known_findings.json handling (DESIGN.md 3.8).  The file is committed and
never written at run time.  `open` entries name the specific failing input;
`fixed` entries suppress nothing."""
from __future__ import annotations

import json
import os
from typing import Any, Callable, Dict, List, Optional

ROOT = os.path.dirname(os.path.dirname(os.path.abspath(__file__)))


def load() -> List[dict]:
    p = os.path.join(ROOT, "known_findings.json")
    if not os.path.exists(p):
        return []
    with open(p) as fh:
        return json.load(fh).get("findings", [])


def open_for(known: List[dict], pid: str) -> List[dict]:
    return [k for k in known if k.get("status") == "open" and
            k.get("property") == pid]


def match(known: List[dict], pid: str, failure: dict) -> Optional[dict]:
    """a stand-in failure is a known finding iff its check id and its input
    signature are the ones listed"""
    for k in open_for(known, pid):
        if k.get("check") == failure.get("check") and \
                k.get("input_signature") == failure.get("signature"):
            return k
    return None


def match_obligation(known: List[dict], pid: str, oid: str) -> bool:
    oid = oid.split("#helpers-inlined")[0]
    for k in open_for(known, pid):
        if oid in k.get("obligations", []):
            return True
    return False


def replay_witness(kf: dict, run_standin: Callable) -> bool:
    """True iff the listed witness still fails on the current tree"""
    res = run_standin(kf["standin"], "replay", 0,
                      [dict(witness=kf["witness"])])
    if res.get("error"):
        return False
    return any(f.get("check") == kf.get("check") for f in res.get("failures", []))
