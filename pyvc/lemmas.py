"""L3 -- property lemmas: the algebraic consequences the property statements
list, stated once over the *contracts* (function results replaced by the
values their postconditions pin down) and discharged as pure SMT queries.

Each lemma: id -> (props, builder() -> (assumptions, goal), note).
"""
from __future__ import annotations

from typing import Any, Callable, Dict, List, Tuple

import z3

from . import spec as S
from .sym import MODE_ID

R = z3.Real
I = z3.Int

LEMMAS: Dict[str, Tuple[List[str], Callable[[], Tuple[List[Any], Any]], str]] = {}


def lemma(lid: str, props: List[str], note: str = ""):
    def deco(fn):
        LEMMAS[lid] = (props, fn, note)
        return fn
    return deco


def _mode():
    m = I("mode")
    return m, z3.And(m >= 0, m < 8)


# ---------------------------------------------------------------------------
# the rounding relation defines a function (justifies `rnd`, A3)
@lemma("round_rel/functional", ["C05", "C13"],
       "at most one integer satisfies round_rel(x, mode, .)")
def _l1():
    x, k1, k2 = R("x"), I("k1"), I("k2")
    m, valid = _mode()
    return [valid, S.round_rel(x, m, k1), S.round_rel(x, m, k2)], k1 == k2


@lemma("round_rel/total", ["C05", "C13"],
       "floor(x) or floor(x)+1 satisfies round_rel(x, mode, .)")
def _l2():
    x = R("x")
    m, valid = _mode()
    f = z3.ToInt(x)
    return [valid], z3.Or(S.round_rel(x, m, f), S.round_rel(x, m, f + 1))


@lemma("round_rel/integers-fixed", ["C05", "C13"],
       "an integer is rounded to itself in every mode")
def _l3():
    k, j = I("k"), I("j")
    m, valid = _mode()
    return [valid, S.round_rel(z3.ToReal(k), m, j)], j == k


# C05 / C13: distance and side conditions of each mode -------------------------
@lemma("round_rel/less-than-one-quantum", ["C05", "C13", "C06"],
       "|x - k| < 1 in every mode")
def _l4():
    x, k = R("x"), I("k")
    m, valid = _mode()
    return [valid, S.round_rel(x, m, k)], S.absr(x - z3.ToReal(k)) < 1


@lemma("round_rel/half-modes-at-most-half", ["C05", "C13", "C06"],
       "|x - k| <= 1/2 under the three half modes")
def _l5():
    x, k = R("x"), I("k")
    m = I("mode")
    half = z3.Or(m == MODE_ID["ROUND_HALF_UP"], m == MODE_ID["ROUND_HALF_DOWN"],
                 m == MODE_ID["ROUND_HALF_EVEN"])
    return [half, S.round_rel(x, m, k)], \
        S.absr(x - z3.ToReal(k)) <= z3.RealVal("1/2")


@lemma("round_rel/directed-modes-side", ["C05", "C13"],
       "FLOOR never above, CEILING never below, DOWN never larger in "
       "magnitude, UP never smaller in magnitude")
def _l6():
    x, k = R("x"), I("k")
    m = I("mode")
    kr = z3.ToReal(k)
    goal = z3.And(
        z3.Implies(m == MODE_ID["ROUND_FLOOR"], kr <= x),
        z3.Implies(m == MODE_ID["ROUND_CEILING"], kr >= x),
        z3.Implies(m == MODE_ID["ROUND_DOWN"], S.absr(kr) <= S.absr(x)),
        z3.Implies(m == MODE_ID["ROUND_UP"], S.absr(kr) >= S.absr(x)))
    return [S.round_rel(x, m, k)], goal


@lemma("round_rel/ties", ["C13"],
       "exact ties: HALF_UP away from zero, HALF_DOWN toward zero, "
       "HALF_EVEN to the even neighbour")
def _l7():
    j, k = I("j"), I("k")
    m = I("mode")
    x = z3.ToReal(j) + z3.RealVal("1/2")          # a tie between j and j+1
    goal = z3.And(
        z3.Implies(m == MODE_ID["ROUND_HALF_UP"],
                   k == z3.If(j >= 0, j + 1, j)),
        z3.Implies(m == MODE_ID["ROUND_HALF_DOWN"],
                   k == z3.If(j >= 0, j, j + 1)),
        z3.Implies(m == MODE_ID["ROUND_HALF_EVEN"],
                   k == z3.If(j % 2 == 0, j, j + 1)))
    return [S.round_rel(x, m, k)], goal


@lemma("round_rel/05up", ["C13"],
       "05UP: toward zero unless the truncated last digit is 0 or 5")
def _l8():
    j, k = I("j"), I("k")
    f = R("f")
    x = z3.ToReal(j) + f                            # j = floor(x), 0 < f < 1
    t = z3.If(j >= 0, j, j + 1)                     # truncated toward zero
    away = z3.If(j >= 0, j + 1, j)
    at = z3.If(t < 0, -t, t)
    goal = k == z3.If(z3.Or(at % 10 == 0, at % 10 == 5), away, t)
    return [f > 0, f < 1, S.round_rel(x, I("m05"), k),
            I("m05") == MODE_ID["ROUND_05UP"]], goal


# grid closure (C03 exactness on quantized types, C05) --------------------------
@lemma("field/cancel-common-factor", ["C03", "C05"],
       "(x*q + y*q)/q == x + y and (x*q)/q == x for q != 0 (pure real "
       "arithmetic; instantiated at integer x, y in the grid lemmas)")
def _g0():
    x, y, q = R("x"), R("y"), R("q")
    return [q != 0], z3.And((x * q + y * q) / q == x + y, (x * q) / q == x,
                            (-(x * q)) / q == -x)


def _dq():
    n, d = I("n"), I("d")
    x = R("x")
    # the Euclidean identity is the SMT-LIB definition of div / mod (theory
    # Ints); z3 does not instantiate it for a symbolic divisor by itself
    return n, d, x, [d > 0, z3.ToReal(n) == x * z3.ToReal(d),
                     n == d * (n / d) + n % d]


@lemma("field/quotient-form", ["C13"], "n == x*d, d > 0  =>  n/d == x")
def _g0b():
    n, d, x, hyp = _dq()
    return hyp, z3.ToReal(n) / z3.ToReal(d) == x


@lemma("field/divisible-quotient-integral", ["C13"],
       "n == x*d, d > 0, d | n  =>  x == n div d (so x is integral)")
def _g0c():
    n, d, x, hyp = _dq()
    return hyp + [n % d == 0], x == z3.ToReal(n / d)


@lemma("field/integral-quotient-divisible", ["C13"],
       "n == x*d, d > 0, x integral  =>  d | n")
def _g0d():
    n, d, x, hyp = _dq()
    return hyp + [x == z3.ToReal(z3.ToInt(x))], n % d == 0


@lemma("grid/sum-of-multiples-not-rounded", ["C03", "C05"],
       "a = i*q, e = j*q, q > 0  =>  rounding (a +- e)/q gives (a +- e)/q "
       "(uses the instance x:=i, y:=+-j of field/cancel-common-factor)")
def _g1():
    i, j, k = I("i"), I("j"), I("k")
    q = R("q")
    m, valid = _mode()
    sj = I("sj")                                  # +j or -j
    a, e = z3.ToReal(i) * q, z3.ToReal(sj) * q
    inst = (a + e) / q == z3.ToReal(i) + z3.ToReal(sj)
    return [valid, q > 0, z3.Or(sj == j, sj == -j), inst,
            S.round_rel((a + e) / q, m, k)], \
        z3.And(k == i + sj, z3.ToReal(k) * q == a + e)


@lemma("grid/multiple-not-rounded", ["C03", "C05", "C06"],
       "a = i*q, q > 0  =>  rounding a/q gives i, and i*q == a (instance "
       "x:=i of field/cancel-common-factor)")
def _g1b():
    i, k = I("i"), I("k")
    q = R("q")
    m, valid = _mode()
    a = z3.ToReal(i) * q
    inst = a / q == z3.ToReal(i)
    return [valid, q > 0, inst, S.round_rel(a / q, m, k)], \
        z3.And(k == i, z3.ToReal(k) * q == a)


@lemma("grid/negation-and-abs-not-rounded", ["C03", "C05"],
       "a = i*q, q > 0  =>  -a and |a| are multiples of q (instance x:=i of "
       "field/cancel-common-factor)")
def _g2():
    i, k = I("i"), I("k")
    q = R("q")
    m, valid = _mode()
    n = I("n")                                    # -i or |i|
    x = z3.ToReal(n) * q
    inst = x / q == z3.ToReal(n)
    return [valid, q > 0, z3.Or(n == -i, n == z3.If(i < 0, -i, i)), inst,
            S.round_rel(x / q, m, k)], \
        z3.And(k == n, z3.ToReal(k) * q == x)


@lemma("grid/unit-quantum", ["C05"],
       "quantum(unit) * scale(unit) is the type quantum, so a multiple of one "
       "unit's quantum converted to another unit of the type is a multiple "
       "of that unit's quantum")
def _g3():
    Q, s1, s2 = R("Q"), R("s1"), R("s2")
    j = I("j")
    b = z3.ToReal(j) * (Q / s2)                    # on the grid of unit 2
    e = b * s2 / s1                                # equivalent amount in unit 1
    return [Q > 0, s1 > 0, s2 > 0], \
        z3.And((Q / s1) * s1 == Q, e == z3.ToReal(j) * (Q / s1))


@lemma("allocate/quanta-bound", ["C06"],
       "M*q == -(e1+e2+e3), |e_i| < q, q > 0  =>  |M| < 3 (and the instance "
       "with e3 == 0 for two portions: |M| < 2)")
def _alloc1():
    M = I("M")
    q, e1, e2, e3 = R("q"), R("e1"), R("e2"), R("e3")
    hyp = [q > 0, z3.ToReal(M) * q == -(e1 + e2 + e3),
           -q < e1, e1 < q, -q < e2, e2 < q]
    return hyp, z3.And(z3.Implies(z3.And(-q < e3, e3 < q), z3.And(M < 3, M > -3)),
                       z3.Implies(e3 == 0, z3.And(M < 2, M > -2)))


# C01 -----------------------------------------------------------------------------
def _conv(a, s_from, s_to):
    return a * s_from / s_to


@lemma("C01/roundtrip", ["C01"],
       "converting to another unit and back returns the identical amount")
def _c01a():
    a, s1, s2 = R("a"), R("s1"), R("s2")
    return [s1 > 0, s2 > 0], _conv(_conv(a, s1, s2), s2, s1) == a


@lemma("C01/via-intermediate", ["C01"],
       "converting through any third unit equals converting directly")
def _c01b():
    a, s1, s2, s3 = R("a"), R("s1"), R("s2"), R("s3")
    return [s1 > 0, s2 > 0, s3 > 0], \
        _conv(_conv(a, s1, s3), s3, s2) == _conv(a, s1, s2)


@lemma("C01/converted-equals-original", ["C01", "C04"],
       "q.convert(u) == q by the contract of __eq__ (amount == other's "
       "equivalent amount in self's unit)")
def _c01c():
    a, s1, s2 = R("a"), R("s1"), R("s2")
    conv = _conv(a, s1, s2)            # amount of q.convert(u2)
    # (q.convert(u2) == q)  <=>  conv == a * s1 / s2
    return [s1 > 0, s2 > 0], conv == _conv(a, s1, s2)


@lemma("C01/reference-value-preserved", ["C01", "C20"],
       "the value in reference units is unchanged by conversion")
def _c01d():
    a, s1, s2 = R("a"), R("s1"), R("s2")
    return [s1 > 0, s2 > 0], _conv(a, s1, s2) * s2 == a * s1


# C03 -----------------------------------------------------------------------------
def _add(a1, s1, a2, s2):
    """amount of (a1 u1) + (a2 u2) in u1 per the __add__ contract (no quantum,
    or operands on the grid: lemma grid/sum-of-multiples-not-rounded)"""
    return a1 + a2 * s2 / s1


@lemma("C03/sum-by-reference-value", ["C03"],
       "refval(a + b) == refval(a) + refval(b)")
def _c03a():
    a1, a2, s1, s2 = R("a1"), R("a2"), R("s1"), R("s2")
    return [s1 > 0, s2 > 0], _add(a1, s1, a2, s2) * s1 == a1 * s1 + a2 * s2


@lemma("C03/commutative-by-value", ["C03"], "a + b and b + a have equal refval")
def _c03b():
    a1, a2, s1, s2 = R("a1"), R("a2"), R("s1"), R("s2")
    return [s1 > 0, s2 > 0], \
        _add(a1, s1, a2, s2) * s1 == _add(a2, s2, a1, s1) * s2


@lemma("C03/associative-by-value", ["C03"],
       "(a + b) + c and a + (b + c) have equal refval")
def _c03c():
    a1, a2, a3 = R("a1"), R("a2"), R("a3")
    s1, s2, s3 = R("s1"), R("s2"), R("s3")
    left = _add(_add(a1, s1, a2, s2), s1, a3, s3) * s1
    right = _add(a1, s1, _add(a2, s2, a3, s3), s2) * s1
    return [s1 > 0, s2 > 0, s3 > 0], left == right


@lemma("C03/negation-is-inverse", ["C03"], "a + (-a) has refval 0")
def _c03d():
    a1, s1 = R("a1"), R("s1")
    return [s1 > 0], _add(a1, s1, -a1, s1) * s1 == 0


@lemma("C03/difference-by-reference-value", ["C03"],
       "refval(a - b) == refval(a) - refval(b)")
def _c03e():
    a1, a2, s1, s2 = R("a1"), R("a2"), R("s1"), R("s2")
    return [s1 > 0, s2 > 0], (a1 - a2 * s2 / s1) * s1 == a1 * s1 - a2 * s2


@lemma("C03/scalar-distributes", ["C03"],
       "k*(a + b) and k*a + k*b have equal refval (no quantum)")
def _c03f():
    a1, a2, s1, s2, k = R("a1"), R("a2"), R("s1"), R("s2"), R("k")
    left = (k * _add(a1, s1, a2, s2)) * s1
    right = _add(k * a1, s1, k * a2, s2) * s1
    return [s1 > 0, s2 > 0], left == right


# C04 -----------------------------------------------------------------------------
@lemma("C04/comparison-by-reference-value", ["C04"],
       "a1 <op> a2*s2/s1  <=>  a1*s1 <op> a2*s2   for all six operators")
def _c04a():
    a1, a2, s1, s2 = R("a1"), R("a2"), R("s1"), R("s2")
    e = a2 * s2 / s1
    r1, r2 = a1 * s1, a2 * s2
    return [s1 > 0, s2 > 0], z3.And((a1 == e) == (r1 == r2),
                                    (a1 < e) == (r1 < r2),
                                    (a1 <= e) == (r1 <= r2),
                                    (a1 > e) == (r1 > r2),
                                    (a1 >= e) == (r1 >= r2))


@lemma("C04/trichotomy-and-order", ["C04"],
       "on reference values exactly one of <, ==, > holds; == is an "
       "equivalence; <= is total and transitive")
def _c04b():
    x, y, z = R("x"), R("y"), R("z")
    one = z3.And(z3.Or(x < y, x == y, x > y),
                 z3.Not(z3.And(x < y, x == y)), z3.Not(z3.And(x < y, x > y)),
                 z3.Not(z3.And(x == y, x > y)))
    return [], z3.And(one, x == x, (x == y) == (y == x),
                      z3.Implies(z3.And(x == y, y == z), x == z),
                      z3.Or(x <= y, y <= x),
                      z3.Implies(z3.And(x <= y, y <= z), x <= z),
                      (x < y) == (y > x), (x <= y) == (y >= x))


@lemma("C04/symmetric-across-units", ["C04"],
       "(a == b) computed in a's unit equals (b == a) computed in b's unit")
def _c04c():
    a1, a2, s1, s2 = R("a1"), R("a2"), R("s1"), R("s2")
    return [s1 > 0, s2 > 0], (a1 == a2 * s2 / s1) == (a2 == a1 * s1 / s2)


# C02 / C17 -----------------------------------------------------------------------
@lemma("C02/value-in-base-units", ["C02"],
       "a result (amount, unit) with amount * num(unit) == a*b*n1*n2 has "
       "exactly the product of the operands' values in base units")
def _c02a():
    a, b, n1, n2, un, amt = R("a"), R("b"), R("n1"), R("n2"), R("un"), R("amt")
    return [un > 0, amt == (a * b * (n1 * n2)) / un], \
        amt * un == (a * n1) * (b * n2)


@lemma("C02/quotient-in-base-units", ["C02"],
       "same for quotients")
def _c02b():
    a, b, n1, n2, un, amt = R("a"), R("b"), R("n1"), R("n2"), R("un"), R("amt")
    return [un > 0, b != 0, n2 > 0, amt == ((a / b) * (n1 / n2)) / un], \
        amt * un == (a * n1) / (b * n2)


@lemma("C17/hit-equals-miss", ["C17", "C02"],
       "two resolutions (amount, unit) of one denotation -- a cached one and "
       "a freshly computed one, or two units of one bucket -- have the same "
       "value in base units")
def _c17a():
    n, a1, u1, a2, u2 = R("n"), R("a1"), R("u1"), R("a2"), R("u2")
    return [a1 * u1 == n, a2 * u2 == n], a1 * u1 == a2 * u2


# C14 -----------------------------------------------------------------------------
def _rv(fr):
    return z3.RealVal(f"{fr.numerator}/{fr.denominator}")


@lemma("C14/one-direction-table-roundtrip", ["C14"],
       "forward a*f+o and the reversed formula (a-o)/f are mutually inverse "
       "for every amount (f != 0): converting back returns the identical amount")
def _c14a():
    a, f, o = R("a"), R("f"), R("o")
    fwd = a * f + o
    rev = (a - o) / f
    return [f != 0], z3.And((fwd - o) / f == a, rev * f + o == a)


@lemma("C14/two-direction-table-roundtrip", ["C14"],
       "with both directions tabulated the round trip holds for every amount "
       "iff the rows are mutually inverse (f2 = 1/f1, o2 = -o1/f1)")
def _c14b():
    a, f1, o1, f2, o2 = R("a"), R("f1"), R("o1"), R("f2"), R("o2")
    inverse = z3.And(f1 * f2 == 1, o2 == -o1 * f2)
    rt = (a * f1 + o1) * f2 + o2 == a
    b = R("b")
    rt_b = (b * f1 + o1) * f2 + o2 == b
    return [f1 != 0], z3.And(z3.Implies(inverse, rt),
                             z3.Implies(z3.And(rt, rt_b, a != b), inverse))


@lemma("C14/predefined-temperature-table", ["C14", "C20"],
       "the rows of predefined._temp_conv (read from the AST): opposite rows "
       "are mutually inverse, every triangle commutes for every amount, and "
       "the defining fixed points hold")
def _c14c():
    from .catalog import temperature_rows
    rows = temperature_rows()
    a = R("a")
    goals = []
    units = sorted({u for k in rows for u in k})
    want = [z3.BoolVal(len(units) == 3 and len(rows) == 6)]
    for (u1, u2), (f, o) in rows.items():
        if (u2, u1) not in rows:
            want.append(z3.BoolVal(False))
            continue
        f2, o2 = rows[(u2, u1)]
        goals.append((a * _rv(f) + _rv(o)) * _rv(f2) + _rv(o2) == a)
        for u3 in units:
            if u3 in (u1, u2) or (u2, u3) not in rows or (u1, u3) not in rows:
                continue
            g, p = rows[(u2, u3)]
            h, q = rows[(u1, u3)]
            goals.append((a * _rv(f) + _rv(o)) * _rv(g) + _rv(p) ==
                         a * _rv(h) + _rv(q))

    def conv(x, u1, u2):
        f, o = rows[(u1, u2)]
        return x * f + o
    from fractions import Fraction as Fr
    C, F_, K_ = "CELSIUS", "FAHRENHEIT", "KELVIN"
    fixed = [
        conv(Fr(0), C, K_) == Fr("273.15"), conv(Fr(0), C, F_) == 32,
        conv(Fr(-40), C, F_) == -40, conv(Fr(0), K_, F_) == Fr("-459.67"),
        conv(Fr("273.15"), K_, C) == 0, conv(Fr(32), F_, C) == 0,
        conv(Fr(100), C, F_) == 212, conv(Fr("373.15"), K_, F_) == 212,
    ] if all(k in rows for k in [(C, K_), (C, F_), (K_, F_), (K_, C),
                                 (F_, C)]) else [False]
    want += [z3.BoolVal(bool(x)) for x in fixed]
    return [], z3.And(*(goals + want))


# C12 -----------------------------------------------------------------------------
@lemma("C12/push-body-pop-restores", ["C12"],
       "entering (push c), a body that leaves the list as it found it, and "
       "leaving (pop, which requires c on top) restores the list and does not "
       "raise; nested blocks follow by induction on the nesting depth")
def _c12a():
    from .sym import Obj
    s = z3.Const("s", z3.SeqSort(Obj))
    c = z3.Const("c", Obj)
    pushed = z3.Concat(s, z3.Unit(c))
    n = z3.Length(pushed)
    top_is = z3.And(n > 0, pushed[n - 1] == c)
    popped = z3.Extract(pushed, 0, n - 1)
    return [], z3.And(top_is, popped == s)


@lemma("C12/register-twice-is-once", ["C12"],
       "generic registration is idempotent")
def _c12b():
    from .sym import Obj
    s = z3.Const("s", z3.SeqSort(Obj))
    c = z3.Const("c", Obj)
    once = z3.If(z3.Contains(s, z3.Unit(c)), s, z3.Concat(s, z3.Unit(c)))
    twice = z3.If(z3.Contains(once, z3.Unit(c)), once,
                  z3.Concat(once, z3.Unit(c)))
    return [], twice == once


@lemma("C12/remove-after-register-restores", ["C12"],
       "removing a converter that was newly registered restores the list")
def _c12c():
    from .sym import Obj
    s = z3.Const("s", z3.SeqSort(Obj))
    c = z3.Const("c", Obj)
    u = z3.Unit(c)
    reg = z3.Concat(s, u)
    i = z3.IndexOf(reg, u, 0)
    n = z3.Length(reg)
    removed = z3.Concat(z3.Extract(reg, 0, i), z3.Extract(reg, i + 1, n - i - 1))
    return [z3.Not(z3.Contains(s, u))], removed == s


# C19 -----------------------------------------------------------------------------
@lemma("C19/Quantity/equal-implies-equal-hash/with-reference-unit", ["C19"],
       "for a type with reference unit: a == b (contract of __eq__: same "
       "class, a1 == a2*s2/s1) implies equal __hash__ (contract: hash of the "
       "reference value and the reference unit) -- whatever the units and "
       "whether the amounts are held as Decimal or Fraction (hash_num is a "
       "function of the value)")
def _c19a():
    a1, a2, s1, s2 = R("a1"), R("a2"), R("s1"), R("s2")
    hr = I("hash_of_ref_unit")
    h1 = S.hash_pair(S.hash_num(a1 * s1 / 1), S.hash_pair(hr, S.HASH_NIL))
    h2 = S.hash_pair(S.hash_num(a2 * s2 / 1), S.hash_pair(hr, S.HASH_NIL))
    return [s1 > 0, s2 > 0, a1 == a2 * s2 / s1], h1 == h2


@lemma("C19/Quantity/equal-implies-equal-hash/identical-unit", ["C19"],
       "for a type without reference unit and identical units: a == b means "
       "equal amounts, hence equal hashes of (amount, unit)")
def _c19b():
    a1, a2 = R("a1"), R("a2")
    hu = I("hash_of_unit")
    h1 = S.hash_pair(S.hash_num(a1), S.hash_pair(hu, S.HASH_NIL))
    h2 = S.hash_pair(S.hash_num(a2), S.hash_pair(hu, S.HASH_NIL))
    return [a1 == a2], h1 == h2


@lemma("C19/ExchangeRate/equal-implies-equal-hash", ["C19"],
       "ExchangeRate.__eq__ compares the quotation tuples, __hash__ hashes "
       "the quotation tuple: congruence")
def _c19c():
    u1, u2, t1, t2 = I("hu1"), I("hu2"), I("ht1"), I("ht2")
    r1, r2 = R("r1"), R("r2")
    h1 = S.hash_pair(u1, S.hash_pair(t1, S.hash_pair(S.hash_num(r1), S.HASH_NIL)))
    h2 = S.hash_pair(u2, S.hash_pair(t2, S.hash_pair(S.hash_num(r2), S.HASH_NIL)))
    return [u1 == u2, t1 == t2, r1 == r2], h1 == h2


# C09 / C10 / C11 ---------------------------------------------------------------------
@lemma("C09/rate-times-inverse-rate-is-one", ["C09"],
       "rate = t/m and inverse_rate = m/t with t, m > 0: the product is "
       "exactly one")
def _c09a():
    t, m = R("t"), R("m")
    return [t > 0, m > 0], (t / m) * (m / t) == 1


@lemma("C09/stored-amount-accuracy", ["C09", "C11"],
       "the stored term amount k/10^6 with k = x*10^6 rounded (contract of "
       "ExchangeRate.__init__) differs from x = true rate times unit multiple "
       "by less than 10^-6, and by at most half of that under the half modes")
def _c09b():
    x, k = R("x"), I("k")
    m = I("mode")
    half = z3.Or(m == MODE_ID["ROUND_HALF_UP"], m == MODE_ID["ROUND_HALF_DOWN"],
                 m == MODE_ID["ROUND_HALF_EVEN"])
    err = S.absr(z3.ToReal(k) / 1000000 - x)
    return [m >= 0, m < 8, S.round_rel(x * 1000000, m, k)], \
        z3.And(err < z3.RealVal("1/1000000"),
               z3.Implies(half, err <= z3.RealVal("1/2000000")))


@lemma("C09/triangulation-direction", ["C09", "C11"],
       "with rate(x->y) = worth(x)/worth(y): (a->b)*(b->c) and (a->c)/(a->b), "
       "(a->b)/(c->b) are the rates a->c, b->c, a->c")
def _c09c():
    wa, wb, wc = R("wa"), R("wb"), R("wc")
    ab, bc, ac, cb = wa / wb, wb / wc, wa / wc, wc / wb
    return [wa > 0, wb > 0, wc > 0], z3.And(ab * bc == ac, ac / ab == bc,
                                            ab / cb == ac)


@lemma("C11/inverse-and-quotient-of-base-rates", ["C11"],
       "with base->x stored as rate r_x = worth(base)/worth(x): x->base is "
       "1/r_x and x->y is r_y/r_x")
def _c11a():
    wb, wx, wy = R("wb"), R("wx"), R("wy")
    rx, ry = wb / wx, wb / wy
    return [wb > 0, wx > 0, wy > 0], z3.And(1 / rx == wx / wb, ry / rx == wx / wy)
