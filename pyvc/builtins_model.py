"""Built-in and dependency model table (DESIGN.md section 7, A1-A3).

Every entry that *assumes* something about Python or a dependency records an
id in `path.ledger`; the ids are echoed into the evidence's trusted base.
"""
from __future__ import annotations

from fractions import Fraction
from typing import Any, Dict, Iterator, List, Optional

import z3

from . import model as M
from . import spec as S
from .sym import (NONE, NOTIMPL, MODE_ID, Obj, T_DEC, T_FLOAT, T_FRAC, T_INT,
                  T_STDDEC, TObj, Unsupported, V, VBool, VClass, VDate, VDateTime,
                  VDictLit, VExc, VFunc, VGen, VInt, VList, VNone, VNotImpl,
                  VObj, VOpaque, VRat, VStr, VTuple, VUser, pack, sorts_of,
                  suffixes_of, unpack, vbool, vint)


def rv(x: V):
    """numeric value as z3 Real"""
    if isinstance(x, VInt):
        return z3.ToReal(x.t)
    if isinstance(x, VRat):
        return x.t
    raise Unsupported(f"not a number: {x!r}")


def tag_of(x: V):
    if isinstance(x, VInt):
        return z3.IntVal(T_INT)
    assert isinstance(x, VRat)
    return x.tag


class BuiltinModel:
    while_bound = 4

    def __init__(self, interp):
        self.I = interp

    @property
    def path(self):
        return self.I.path

    @property
    def heap(self):
        return self.I.path.heap

    def ledger(self, s: str) -> None:
        self.path.ledger.add(s)

    def fresh_str(self, base="s") -> VStr:
        return VStr(self.path.fresh(base, z3.StringSort()))

    # ---------------------------------------------------------------- numbers
    def tag_in(self, x: V, tags) -> Any:
        t = tag_of(x)
        return z3.Or([t == k for k in tags])

    def must_exact(self, x: V) -> bool:
        if isinstance(x, VInt):
            return True
        kt = x.known_tag()
        if kt is not None:
            return kt in (T_DEC, T_FRAC)
        return self.path.must(self.tag_in(x, (T_DEC, T_FRAC)))

    def exact_tag(self, name: str, a: V, b: V):
        """Representation of the result of an exact operation on
        int/Decimal/Fraction operands (A2): Fraction op Fraction -> Fraction,
        anything involving a decimalfp.Decimal -> Decimal or Fraction."""
        ka = T_INT if isinstance(a, VInt) else a.known_tag()
        kb = T_INT if isinstance(b, VInt) else b.known_tag()
        if ka in (T_INT, T_FRAC) and kb in (T_INT, T_FRAC):
            return z3.IntVal(T_FRAC)
        if ka in (T_INT, T_DEC) and kb in (T_INT, T_DEC) and \
                name in ("add", "sub", "mul"):
            return z3.IntVal(T_DEC)
        t = self.path.fresh("tag", z3.IntSort())
        self.path.assume(z3.Or(t == T_DEC, t == T_FRAC))
        return t

    def num_binop(self, name: str, a: V, b: V) -> V:
        if isinstance(a, VInt) and isinstance(b, VInt):
            return self.int_binop(name, a, b)
        # non-exact representations first
        for x in (a, b):
            if isinstance(x, VRat) and not self.must_exact(x):
                if self.path.branch(tag_of(x) == T_STDDEC):
                    # decimal.Decimal does not mix with Fraction / decimalfp
                    self.I.raise_("TypeError")
                if self.path.branch(tag_of(x) == T_FLOAT):
                    return self.float_binop(name, a, b, x)
        ra, rb = rv(a), rv(b)
        if name == "add":
            return VRat(ra + rb, self.exact_tag(name, a, b))
        if name == "sub":
            return VRat(ra - rb, self.exact_tag(name, a, b))
        if name == "mul":
            return VRat(ra * rb, self.exact_tag(name, a, b))
        if name == "truediv":
            if self.path.branch(rb == 0):
                self.I.raise_("ZeroDivisionError")
            return VRat(ra / rb, self.exact_tag(name, a, b))
        if name == "pow":
            if not isinstance(b, VInt):
                raise Unsupported("non-integer exponent")
            return self.rat_pow(a, b)
        if name in ("floordiv", "mod"):
            raise Unsupported("floordiv/mod on rationals")
        raise Unsupported(f"numeric op {name}")

    def float_binop(self, name: str, a: V, b: V, fl: V) -> V:
        other = b if fl is a else a
        if isinstance(other, VRat) and other.known_tag() == T_DEC or \
                (isinstance(other, VRat) and
                 self.path.branch(tag_of(other) == T_DEC)):
            # decimalfp converts the float exactly (A2)
            self.ledger("A2: decimalfp.Decimal op float is exact")
            fa = VRat(rv(a), z3.IntVal(T_DEC)) if fl is a else a
            fb = VRat(rv(b), z3.IntVal(T_DEC)) if fl is b else b
            r = self.num_binop(name, fa, fb)
            assert isinstance(r, VRat)
            t = self.path.fresh("tag", z3.IntSort())
            self.path.assume(z3.Or(t == T_DEC, t == T_FRAC))
            return VRat(r.t, t)
        # float op (int | Fraction | float): binary floating point, inexact
        self.ledger("A1: float arithmetic yields an unspecified float")
        if name == "truediv" and self.path.branch(rv(b) == 0):
            self.I.raise_("ZeroDivisionError")
        return VRat(self.path.fresh("flt", z3.RealSort()), z3.IntVal(T_FLOAT))

    def int_binop(self, name: str, a: VInt, b: VInt) -> V:
        if name == "add":
            return VInt(a.t + b.t)
        if name == "sub":
            return VInt(a.t - b.t)
        if name == "mul":
            return VInt(a.t * b.t)
        if name in ("floordiv", "mod"):
            if self.path.branch(b.t == 0):
                self.I.raise_("ZeroDivisionError")
            q, r = S.py_divmod(a.t, b.t)
            return VInt(q if name == "floordiv" else r)
        if name == "truediv":
            if self.path.branch(b.t == 0):
                self.I.raise_("ZeroDivisionError")
            self.ledger("A1: int / int is a float")
            return VRat(self.path.fresh("flt", z3.RealSort()),
                        z3.IntVal(T_FLOAT))
        if name == "pow":
            if self.path.branch(b.t >= 0):
                return VInt(z3.ToInt(S.qpow(z3.ToReal(a.t), b.t, self.path)))
            # int ** negative int is a float in Python
            if self.path.branch(a.t == 0):
                self.I.raise_("ZeroDivisionError")
            self.ledger("A1: int ** negative int is a float")
            return VRat(self.path.fresh("flt", z3.RealSort()),
                        z3.IntVal(T_FLOAT))
        if name == "lshift":
            raise Unsupported("<<")
        raise Unsupported(f"int op {name}")

    def rat_pow(self, a: V, e: VInt) -> V:
        ra = rv(a)
        if self.path.branch(z3.And(ra == 0, e.t < 0)):
            # decimalfp raises ValueError('math domain error'), Fraction
            # ZeroDivisionError (A2)
            if isinstance(a, VRat) and self.path.branch(a.tag == T_DEC):
                self.I.raise_("ValueError")
            self.I.raise_("ZeroDivisionError")
        val = S.qpow(ra, e.t, self.path)
        ka = a.known_tag() if isinstance(a, VRat) else T_INT
        sra = z3.simplify(ra)
        if ka == T_FRAC:
            tag = z3.IntVal(T_FRAC)
        elif ka == T_DEC and z3.is_rational_value(sra) and \
                sra.denominator_as_long() == 1 and \
                sra.numerator_as_long() in (2, 5, 10):
            # every integer power of 2, 5 or 10 has a finite decimal
            # expansion: decimalfp keeps it a Decimal (A2)
            self.ledger("A2: Decimal(2|5|10) ** int is a Decimal")
            tag = z3.IntVal(T_DEC)
        else:
            tag = self.path.fresh("tag", z3.IntSort())
            self.path.assume(z3.Or(tag == T_DEC, tag == T_FRAC))
        return VRat(val, tag)

    def num_cmp(self, name: str, a: V, b: V) -> V:
        ia = isinstance(a, VInt) and isinstance(b, VInt)
        x, y = (a.t, b.t) if ia else (rv(a), rv(b))
        r = {"eq": x == y, "lt": x < y, "le": x <= y, "gt": x > y,
             "ge": x >= y}[name]
        return VBool(r)

    def tuple_cmp(self, name: str, a: VTuple, b: VTuple) -> V:
        # lexicographic
        for x, y in zip(a.items, b.items):
            if not self.I.truth(self.I.equals(x, y)):
                return self.I.order(name, {"lt": "gt", "le": "ge", "gt": "lt",
                                           "ge": "le"}[name], x, y)
        la, lb = len(a.items), len(b.items)
        return vbool({"lt": la < lb, "le": la <= lb, "gt": la > lb,
                      "ge": la >= lb}[name])

    def str_binop(self, name: str, a: V, b: V) -> V:
        if name == "add" and isinstance(a, VStr) and isinstance(b, VStr):
            return VStr(z3.Concat(a.t, b.t))
        if name == "mod" and isinstance(a, VStr):
            return self.fresh_str("fmt")
        if isinstance(a, (VInt, VRat)) or isinstance(b, (VInt, VRat)):
            self.I.raise_("TypeError")
        raise Unsupported(f"str op {name}")

    # --------------------------------------------------------------- identity
    def identical(self, a: V, b: V):
        if isinstance(a, VNone) or isinstance(b, VNone):
            return z3.BoolVal(isinstance(a, VNone) and isinstance(b, VNone))
        if isinstance(a, VObj) and isinstance(b, VObj):
            return a.t == b.t
        if isinstance(a, VClass) and isinstance(b, VClass):
            return z3.BoolVal(a.name == b.name)
        if isinstance(a, VNotImpl) or isinstance(b, VNotImpl):
            return z3.BoolVal(isinstance(a, VNotImpl) and isinstance(b, VNotImpl))
        if isinstance(a, VFunc) and isinstance(b, VFunc):
            return z3.BoolVal(a.name == b.name)
        if isinstance(a, VBool) and isinstance(b, VBool):
            return a.t == b.t
        if type(a) is not type(b):
            return z3.BoolVal(False)
        if a is b:
            return z3.BoolVal(True)
        raise Unsupported(f"identity of {a!r} and {b!r}")

    def default_eq(self, a: V, b: V) -> V:
        if isinstance(a, VStr) and isinstance(b, VStr):
            return VBool(a.t == b.t)
        if isinstance(a, (VTuple, VList)) and isinstance(b, (VTuple, VList)):
            if type(a) is not type(b) or len(a.items) != len(b.items):
                return vbool(False)
            for x, y in zip(a.items, b.items):
                if not self.I.truth(self.I.equals(x, y)):
                    return vbool(False)
            return vbool(True)
        if isinstance(a, VBool) and isinstance(b, VBool):
            return VBool(a.t == b.t)
        if isinstance(a, VDate) and isinstance(b, VDate):
            if isinstance(a, VDateTime) or isinstance(b, VDateTime):
                raise Unsupported("== with a datetime")
            return VBool(z3.And(a.y == b.y, a.m == b.m, a.d == b.d))
        if isinstance(a, (VInt, VRat)) != isinstance(b, (VInt, VRat)):
            # number vs non-number (object.__eq__ -> identity -> False)
            if isinstance(a, (VObj, VNone, VStr, VTuple, VClass)) or \
                    isinstance(b, (VObj, VNone, VStr, VTuple, VClass)):
                return vbool(False)
        try:
            return VBool(self.identical(a, b))
        except Unsupported:
            raise Unsupported(f"== of {a!r} and {b!r}")

    # -------------------------------------------------------------- isinstance
    def isinstance_(self, v: V, c: V):
        if isinstance(c, VTuple):
            return z3.Or([self._b(self.isinstance_(v, x)) for x in c.items])
        if isinstance(c, VObj) and c.klass == "QtyCls":
            if isinstance(v, VObj) and v.klass == "Qty":
                cls_of = self.heap.get("Qty.__class__", v.t)
                # flat hierarchy (A1): every concrete quantity class derives
                # directly from Quantity
                return z3.Or(cls_of == c.t, c.t == M.C_QUANTITY)
            return False
        if isinstance(c, VFunc) and c.name in TYPE_FUNCS:
            c = VClass(c.name)
        if not isinstance(c, VClass):
            raise Unsupported(f"isinstance against {c!r}")
        n = c.name
        if n in ("Rational", "Real", "Integral", "int", "Decimal", "Fraction",
                 "float", "StdLibDecimal"):
            if isinstance(v, VInt):
                return n in ("Rational", "Real", "Integral", "int") and \
                    v.enum is None
            if isinstance(v, VBool):
                return n in ("Rational", "Real", "Integral", "int")
            if isinstance(v, VRat):
                t = v.tag
                return {"Rational": z3.Or(t == T_DEC, t == T_FRAC),
                        "Real": z3.Or(t == T_DEC, t == T_FRAC, t == T_FLOAT),
                        "Integral": z3.BoolVal(False),
                        "int": z3.BoolVal(False),
                        "Decimal": t == T_DEC, "Fraction": t == T_FRAC,
                        "float": t == T_FLOAT,
                        "StdLibDecimal": t == T_STDDEC}[n]
            return False
        if n == "str":
            return isinstance(v, VStr)
        if n == "tuple":
            return isinstance(v, VTuple)
        if n == "list":
            return isinstance(v, VList)
        if n == "date":
            return isinstance(v, VDate)
        if n == "datetime":
            return isinstance(v, VDateTime)
        if n == "NoneType":
            return isinstance(v, VNone)
        if n == "Unit":
            return isinstance(v, VObj) and v.klass in ("Unit", "Currency")
        if n == "Currency":
            if isinstance(v, VObj) and v.klass == "Currency":
                return True
            if isinstance(v, VObj) and v.klass == "Unit":
                return self.heap.get("Unit.$is_currency", v.t)
            return False
        if n == "Term":
            return isinstance(v, VObj) and v.klass == "Term"
        if n in ("QuantityMeta", "ClassWithDefinitionMeta"):
            return isinstance(v, VObj) and v.klass == "QtyCls"
        if n == "MoneyMeta":
            if isinstance(v, VObj) and v.klass == "QtyCls":
                return v.t == M.C_MONEY
            return False
        if n == "MoneyConverter":
            if isinstance(v, VObj) and v.klass == "MoneyConverter":
                return True
            if isinstance(v, VObj) and v.klass == "AnyConv":
                return self.heap.get("AnyConv.$conv_kind", v.t) == 2
            return False
        if n in ("SIPrefix", "ExchangeRate", "TableConverter", "Converter"):
            if isinstance(v, VObj) and v.klass == "TableConverter" and \
                    n == "Converter":
                return True
            return isinstance(v, VObj) and v.klass == n
        if n == "Sized":
            return isinstance(v, (VTuple, VList, VStr, VDictLit)) or \
                (isinstance(v, VObj) and v.klass == "Term")
        if n == "Mapping":
            return isinstance(v, VDictLit) or \
                (isinstance(v, VObj) and v.klass.startswith("Dict:"))
        if n == "Iterable":
            return isinstance(v, (VTuple, VList, VGen, VStr, VDictLit))
        raise Unsupported(f"isinstance(_, {n})")

    @staticmethod
    def _b(x):
        return z3.BoolVal(x) if isinstance(x, bool) else x

    # ------------------------------------------------------------- attributes
    def value_attr(self, v: V, name: str) -> V:
        if isinstance(v, VClass):
            return self.class_attr(v, name)
        if isinstance(v, VRat):
            return self.rat_attr(v, name)
        if isinstance(v, VInt):
            if name in ("numerator",):
                return v
            if name == "denominator":
                return vint(1)
        if isinstance(v, VDate):
            if name in ("year", "month", "day"):
                return VInt({"year": v.y, "month": v.m, "day": v.d}[name])
        if isinstance(v, VFunc) and v.name == "object" and \
                name in ("__new__", "__init__"):
            return VFunc("object." + name)
        if name == "__class__":
            return self.bi_type(v)
        if isinstance(v, (VList, VStr, VDictLit, VTuple, VGen)):
            return VFunc(f"{type(v).__name__}.{name}", bound=v)
        if isinstance(v, VExc):
            if name == "args":
                return VTuple(list(v.args))
        raise Unsupported(f"attribute {name} of {v!r}")

    def class_attr(self, c: VClass, name: str) -> V:
        n = c.name
        if n == "ROUNDING":
            if name in MODE_ID:
                return VInt(z3.IntVal(MODE_ID[name]), enum="ROUNDING")
        if n == "module:operator":
            return VFunc("operator." + name)
        if n == "module:math":
            return VFunc("math." + name)
        if n == "date":
            if name in ("today", "fromisoformat"):
                return VFunc("date." + name)
        if name == "__name__":
            return VStr(z3.StringVal(n))
        if n in EXC_NAMES and name == "__init__":
            return VFunc("exc_init")
        # class attributes / functions of package classes
        ci = self.I.pkg.find_class(n)
        if ci is not None:
            hit = self.I.pkg.lookup(ci, name)
            if hit is not None:
                if hit[0] == "func":
                    return VUser(hit[1], module=hit[1].module)
                cv = M.CLASS_VARS.get((hit[1].name, name))
                if cv is not None:
                    return cv
                from .interp import Frame
                fr = Frame(hit[1].module, hit[1], n + ":<class>", {})
                return self.I.eval(hit[2], fr)
        raise Unsupported(f"class attribute {n}.{name}")

    def super_attr(self, v, name: str) -> V:
        if name == "__new__":
            return VFunc("object.__new__")
        if name == "__init__":
            return VFunc("object.__init__")
        raise Unsupported(f"super().{name}")

    def rat_attr(self, v: VRat, name: str) -> V:
        if name in ("numerator", "denominator"):
            n, d = S.num_den(v.t, self.path)
            return VInt(n if name == "numerator" else d)
        if name in ("magnitude", "precision"):
            return self.dec_prop(v, name)
        if name in ("adjusted", "quantize", "as_integer_ratio"):
            return VFunc("Decimal." + name, bound=v)
        if name == "normalize" and v.known_tag() == T_STDDEC:
            return VFunc("Decimal.stdnormalize", bound=v)
        raise Unsupported(f"number attribute {name}")

    def dec_prop(self, v: VRat, name: str) -> V:
        if name == "magnitude":
            self.ledger("A2: Decimal.magnitude = floor(log10(|x|)), "
                        "OverflowError for 0")
            if self.path.branch(v.t == 0):
                self.I.raise_("OverflowError")
            m = S.mag(v.t)
            self.path.assume(S.mag_fact(v.t))
            S.p10_facts(self.path, m)
            S.p10_facts(self.path, m + 1)
            return VInt(m)
        if name == "precision":
            self.ledger("A2: Decimal.precision = number of fractional digits")
            p = self.path.fresh("prec", z3.IntSort())
            k = self.path.fresh("precint", z3.IntSort())
            self.path.assume(p >= 0)
            # x * 10^p is an integer; p == 0 exactly for integral values
            # (after adjusted() the precision is minimal)
            self.path.assume(v.t * S.p10(p) == z3.ToReal(k))
            self.path.assume((p == 0) == S.is_int(v.t))
            S.p10_facts(self.path, p)
            return VInt(p)
        raise Unsupported(name)

    def obj_attr_fallback(self, v: VObj, name: str) -> V:
        if v.klass == "QtyCls" and name == "_unit_cls":
            if self.path.branch(self.heap.get("QtyCls.$unit_cls_is_currency",
                                              v.t)):
                return VClass("Currency")
            return VClass("Unit")
        if name == "__class__":
            if v.klass in ("Term",):
                return VClass("Term")
            if v.klass in ("Unit", "Currency"):
                return VClass("Unit")
            return VClass(v.klass)
        if v.klass.startswith("Dict:") or v.klass.startswith("List:"):
            return VFunc(f"{v.klass.split(':')[0]}.{name}", bound=v)
        if v.klass == "MoneyConverter" and name == "_get_dflt_effective_date":
            return VFunc("dflt_effective_date", bound=v)
        if v.klass == "Date":
            pass
        raise Unsupported(f"attribute {name} of {v.klass}")

    def obj_setattr_fallback(self, obj: VObj, name: str, val: V) -> None:
        if obj.klass == "MoneyConverter" and name == "_get_dflt_effective_date":
            given = not (isinstance(val, VFunc) and val.name == "date.today")
            self.heap.set("MoneyConverter.$dflt_given", obj.t,
                          z3.BoolVal(given))
            return
        raise Unsupported(f"store to {obj.klass}.{name}")

    def bi_dflt_effective_date(self, conv):
        """the configured callable (or date.today): returns some valid date
        that the ghost fields $dflt_y/m/d name (A1)"""
        self.ledger("A1: the default effective date callable returns a valid "
                    "date")
        h = self.heap
        y, m, d = (h.get("MoneyConverter.$dflt_y", conv.t),
                   h.get("MoneyConverter.$dflt_m", conv.t),
                   h.get("MoneyConverter.$dflt_d", conv.t))
        self.path.assume(S.valid_date(y, m, d))
        return VDate(y, m, d)

    def coerce_for_field(self, ty, val: V) -> V:
        if isinstance(val, VClass) and val.name in M.TYPE_CODES:
            return vint(M.TYPE_CODES[val.name])
        return val

    def obj_truth(self, v: VObj) -> bool:
        if v.klass == "Term":
            return self.path.branch(self.heap.get("Term.$len", v.t) != 0)
        if v.klass.startswith("List:"):
            if self.is_alist(v):
                return self.path.branch(self.alist_len(v) > 0)
            return self.path.branch(
                z3.Length(self.heap.get("List.$seq", v.t)) > 0)
        return True

    # -------------------------------------------------------------- containers
    def lit_key(self, k: V):
        if isinstance(k, VStr):
            s = z3.simplify(k.t)
            if z3.is_string_value(s):
                return s.as_string()
        if isinstance(k, VClass):
            return "class:" + k.name
        if isinstance(k, VFunc):
            if k.name in TYPE_FUNCS:
                return "class:" + k.name
            return "func:" + k.name
        if isinstance(k, VInt):
            s = z3.simplify(k.t)
            if z3.is_int_value(s):
                return s.as_long()
        raise Unsupported(f"dict literal key {k!r}")

    def dict_kind(self, v: VObj) -> str:
        return v.klass.split(":", 1)[1]

    def dict_dom(self, d: VObj):
        return self.heap.get(f"{d.klass}.$dom", d.t)

    def dict_lookup(self, d: VObj, key) -> V:
        kind = self.dict_kind(d)
        _ks, vty = M.DICT_KINDS[kind]
        terms = [z3.Select(self.heap.get(f"{d.klass}.$val{s}", d.t), key)
                 for s in suffixes_of(vty)]
        return unpack(vty, terms, self.path)

    def getitem(self, base: V, idx: V) -> V:
        if isinstance(base, (VTuple, VList)):
            if isinstance(idx, VInt):
                i = z3.simplify(idx.t)
                if z3.is_int_value(i):
                    k = i.as_long()
                    if -len(base.items) <= k < len(base.items):
                        return base.items[k]
                    self.I.raise_("IndexError")
                # symbolic index into a concrete list: case split
                n = len(base.items)
                for k in range(n):
                    if self.path.branch(idx.t == k):
                        return base.items[k]
                for k in range(1, n + 1):
                    if self.path.branch(idx.t == -k):
                        return base.items[-k]
                self.I.raise_("IndexError")
            raise Unsupported(f"index {idx!r}")
        if isinstance(base, VDictLit):
            k = self.lit_key(idx)
            if k in base.items:
                return base.items[k]
            self.I.raise_("KeyError")
        if isinstance(base, VObj) and base.klass.startswith("Dict:"):
            key = M.to_key(self.dict_kind(base), idx, self.I)
            if not self.path.branch(z3.Select(self.dict_dom(base), key)):
                self.I.raise_("KeyError")
            return self.dict_lookup(base, key)
        if isinstance(base, VObj) and base.klass.startswith("List:"):
            return self.list_getitem(base, idx)
        if isinstance(base, VObj) and self.I.has_method(base, "__getitem__"):
            return self.I.call_method(base, "__getitem__", [idx])
        raise Unsupported(f"getitem on {base!r}")

    def list_elem_klass(self, l: VObj) -> str:
        return M.LIST_KINDS[l.klass.split(":", 1)[1]]

    def is_alist(self, l: VObj) -> bool:
        return l.klass.split(":", 1)[1] in M.ARRAY_LISTS

    def alist_len(self, l: VObj):
        return self.heap.get("AList.$len", l.t)

    def list_getitem(self, l: VObj, idx: V) -> V:
        if not isinstance(idx, VInt):
            raise Unsupported("list index")
        if self.is_alist(l):
            n = self.alist_len(l)
            i = idx.t
            if self.path.branch(i < 0):
                i = i + n
            if not self.path.branch(z3.And(i >= 0, i < n)):
                self.I.raise_("IndexError")
            el = z3.Select(self.heap.get("AList.$arr", l.t), i)
            self.path.assume(self.heap.get("$alloc", el))
            return VObj(el, self.list_elem_klass(l))
        seq = self.heap.get("List.$seq", l.t)
        n = z3.Length(seq)
        i = idx.t
        if self.path.branch(i < 0):
            i = i + n
        if not self.path.branch(z3.And(i >= 0, i < n)):
            self.I.raise_("IndexError")
        el = seq[i]
        self.path.assume(self.heap.get("$alloc", el))
        return VObj(el, self.list_elem_klass(l))

    def setitem(self, base: V, idx: V, val: V) -> None:
        if isinstance(base, VList) and isinstance(idx, VInt):
            i = z3.simplify(idx.t)
            if z3.is_int_value(i):
                base.items[i.as_long()] = val
                return
            n = len(base.items)
            for k in range(n):
                if self.path.branch(idx.t == k):
                    base.items[k] = val
                    return
            self.I.raise_("IndexError")
        if isinstance(base, VDictLit):
            base.items[self.lit_key(idx)] = val
            return
        if isinstance(base, VObj) and base.klass.startswith("Dict:"):
            kind = self.dict_kind(base)
            key = M.to_key(kind, idx, self.I)
            self.dict_store(base, key, val)
            return
        if isinstance(base, VObj) and base.klass.startswith("List:"):
            if not isinstance(idx, VInt) or not isinstance(val, VObj):
                raise Unsupported("list store")
            seq = self.heap.get("List.$seq", base.t)
            n = z3.Length(seq)
            i = idx.t
            if not self.path.branch(z3.And(i >= 0, i < n)):
                self.I.raise_("IndexError")
            new = z3.Concat(z3.Extract(seq, 0, i), z3.Unit(val.t),
                            z3.Extract(seq, i + 1, n - i - 1))
            self.heap.set("List.$seq", base.t, new)
            return
        raise Unsupported(f"setitem on {base!r}")

    def dict_store(self, d: VObj, key, val: V) -> None:
        kind = self.dict_kind(d)
        _ks, vty = M.DICT_KINDS[kind]
        self.heap.set(f"{d.klass}.$dom", d.t,
                      z3.Store(self.dict_dom(d), key, z3.BoolVal(True)))
        for suf, t in zip(suffixes_of(vty), pack(vty, val)):
            name = f"{d.klass}.$val{suf}"
            self.heap.set(name, d.t, z3.Store(self.heap.get(name, d.t), key, t))

    def new_dict(self, kind: str) -> VObj:
        d = self.I.alloc(f"Dict:{kind}", "dict")
        ks, _ = M.DICT_KINDS[kind]
        self.heap.set(f"Dict:{kind}.$dom", d.t, z3.K(ks, z3.BoolVal(False)))
        return d

    def new_list(self, kind: str, items: List[VObj]) -> VObj:
        l = self.I.alloc(f"List:{kind}", "list")
        if kind in M.ARRAY_LISTS:
            arr = self.heap.get("AList.$arr", l.t)
            for i, it in enumerate(items):
                arr = z3.Store(arr, i, it.t)
            self.heap.set("AList.$arr", l.t, arr)
            self.heap.set("AList.$len", l.t, z3.IntVal(len(items)))
            return l
        seq = z3.Empty(z3.SeqSort(Obj))
        for it in items:
            seq = z3.Concat(seq, z3.Unit(it.t))
        self.heap.set("List.$seq", l.t, seq)
        return l

    def contains(self, cont: V, x: V) -> V:
        if isinstance(cont, (VTuple, VList)):
            for it in cont.items:
                if self.I.truth(VBool(self._b(self.identical_or_false(it, x)))):
                    return vbool(True)
                if self.I.truth(self.I.equals(it, x)):
                    return vbool(True)
            return vbool(False)
        if isinstance(cont, VDictLit):
            return vbool(self.lit_key(x) in cont.items)
        if isinstance(cont, VObj) and cont.klass.startswith("Dict:"):
            key = M.to_key(self.dict_kind(cont), x, self.I)
            return VBool(z3.Select(self.dict_dom(cont), key))
        if isinstance(cont, VObj) and cont.klass.startswith("List:"):
            if not isinstance(x, VObj):
                return vbool(False)
            # list membership of converter objects: identity (no __eq__)
            seq = self.heap.get("List.$seq", cont.t)
            return VBool(z3.Contains(seq, z3.Unit(x.t)))
        if isinstance(cont, VObj) and self.I.has_method(cont, "__contains__"):
            return self.I.call_method(cont, "__contains__", [x])
        raise Unsupported(f"'in' on {cont!r}")

    def identical_or_false(self, a: V, b: V):
        try:
            return self.identical(a, b)
        except Unsupported:
            return False

    def getslice(self, base: V, lo: Optional[V], hi: Optional[V]) -> V:
        def idx(x, dflt):
            if x is None:
                return dflt
            if isinstance(x, VInt):
                s = z3.simplify(x.t)
                if z3.is_int_value(s):
                    return s.as_long()
            raise Unsupported("symbolic slice bound")
        if isinstance(base, (VTuple, VList)):
            n = len(base.items)
            return type(base)(base.items[idx(lo, 0):idx(hi, n)])
        if isinstance(base, VObj) and self.I.has_method(base, "__getitem__"):
            return self.I.call_method(base, "__getitem__",
                                      [VOpaque(("slice", idx(lo, None),
                                                idx(hi, None)))])
        if isinstance(base, VStr):
            l = idx(lo, 0)
            if hi is None:
                return VStr(z3.SubString(base.t, l, z3.Length(base.t) - l))
            return VStr(z3.SubString(base.t, l, idx(hi, 0) - l))
        raise Unsupported(f"slice of {base!r}")

    def iterate(self, v: V) -> Iterator[V]:
        if isinstance(v, (VTuple, VList)):
            return iter(list(v.items))
        if isinstance(v, VGen):
            return v.iterator()
        if isinstance(v, VDictLit):
            raise Unsupported("iteration over dict literal")
        if isinstance(v, VObj) and v.klass.startswith("List:"):
            return self.iter_heap_list(v)
        if isinstance(v, VObj) and self.I.has_method(v, "__iter__"):
            return self.iterate(self.I.call_method(v, "__iter__", []))
        if isinstance(v, VOpaque) and isinstance(v.what, tuple) and \
                v.what[0] == "iter":
            return v.what[1]
        raise Unsupported(f"iteration over {v!r}")

    LIST_UNROLL = 3

    def iter_heap_list(self, l: VObj, reverse: bool = False) -> Iterator[V]:
        """Iterate a heap list of symbolic length; unrolled up to LIST_UNROLL
        elements with an unwinding assertion (Unsupported beyond)."""
        seq = self.heap.get("List.$seq", l.t)
        n = z3.Length(seq)
        k = 0
        while True:
            if not self.path.branch(n > k):
                return
            if k >= self.LIST_UNROLL:
                raise Unsupported(f"list longer than unroll bound "
                                  f"{self.LIST_UNROLL}")
            el = seq[n - 1 - k] if reverse else seq[k]
            self.path.assume(self.heap.get("$alloc", el))
            yield VObj(el, self.list_elem_klass(l))
            k += 1

    # --------------------------------------------------------------- builtins
    def call_builtin(self, f: VFunc, args: List[V], kwargs: Dict[str, V]) -> V:
        n = f.name
        m = getattr(self, "bi_" + n.replace(".", "_"), None)
        if m is None:
            raise Unsupported(f"builtin {n}")
        if f.bound is not None:
            return m(f.bound, *args, **kwargs)
        return m(*args, **kwargs)

    def bi_cast(self, _t, x):
        return x

    def bi_isinstance(self, v, c):
        r = self.isinstance_(v, c)
        return VBool(self._b(r))

    def bi_len(self, v):
        if isinstance(v, (VTuple, VList)):
            return vint(len(v.items))
        if isinstance(v, VDictLit):
            return vint(len(v.items))
        if isinstance(v, VStr):
            return VInt(z3.Length(v.t))
        if isinstance(v, VObj) and v.klass.startswith("List:"):
            if self.is_alist(v):
                return VInt(self.alist_len(v))
            return VInt(z3.Length(self.heap.get("List.$seq", v.t)))
        if isinstance(v, VObj) and v.klass == "Term":
            return VInt(self.heap.get("Term.$len", v.t))
        if isinstance(v, VObj) and self.I.has_method(v, "__len__"):
            return self.I.call_method(v, "__len__", [])
        raise Unsupported(f"len of {v!r}")

    def bi_abs(self, v):
        if isinstance(v, VInt):
            return VInt(z3.If(v.t < 0, -v.t, v.t))
        if isinstance(v, VRat):
            return VRat(z3.If(v.t < 0, -v.t, v.t), v.tag)
        if isinstance(v, VObj):
            return self.I.call_method(v, "__abs__", [])
        raise Unsupported("abs")

    def bi_divmod(self, a, b):
        if isinstance(a, VInt) and isinstance(b, VInt):
            if self.path.branch(b.t == 0):
                self.I.raise_("ZeroDivisionError")
            q, r = S.py_divmod(a.t, b.t)
            return VTuple([VInt(q), VInt(r)])
        raise Unsupported("divmod on non-int")

    def bi_tuple(self, it=None):
        if it is None:
            return VTuple([])
        return VTuple(list(self.iterate(it)))

    def bi_list(self, it=None):
        if it is None:
            return VList([])
        return VList(list(self.iterate(it)))

    def bi_iter(self, v):
        return VOpaque(("iter", self.iterate(v)))

    def bi_next(self, it, *dflt):
        if isinstance(it, VGen):
            it = VOpaque(("iter", it.iterator()))
        if isinstance(it, VOpaque) and isinstance(it.what, tuple) and \
                it.what[0] == "iter":
            try:
                return next(it.what[1])
            except StopIteration:
                if dflt:
                    return dflt[0]
                self.I.raise_("StopIteration")
        raise Unsupported("next")

    def bi_range(self, *a):
        vals = []
        for x in a:
            if isinstance(x, VInt):
                s = z3.simplify(x.t)
                if z3.is_int_value(s):
                    vals.append(s.as_long())
                    continue
            raise Unsupported("symbolic range")
        return VList([vint(i) for i in range(*vals)])

    def bi_enumerate(self, it):
        return VGen(lambda: (VTuple([vint(i), x])
                             for i, x in enumerate(self.iterate(it))))

    def bi_zip(self, *its):
        return VGen(lambda: (VTuple(list(t))
                             for t in zip(*[self.iterate(i) for i in its])))

    def bi_reversed(self, v):
        if isinstance(v, (VTuple, VList)):
            return VList(list(reversed(v.items)))
        if isinstance(v, VObj) and v.klass.startswith("List:"):
            return VGen(lambda: self.iter_heap_list(v, reverse=True))
        raise Unsupported("reversed")

    def bi_map(self, f, *its):
        return VGen(lambda: (self.I.call(f, list(t))
                             for t in zip(*[self.iterate(i) for i in its])))

    def bi_all(self, it):
        for x in self.iterate(it):
            if not self.I.truth(x):
                return vbool(False)
        return vbool(True)

    def bi_any(self, it):
        for x in self.iterate(it):
            if self.I.truth(x):
                return vbool(True)
        return vbool(False)

    def bi_min(self, a, b):
        return a if self.I.truth(self.I.order("le", "ge", a, b)) else b

    def bi_max(self, a, b):
        return a if self.I.truth(self.I.order("ge", "le", a, b)) else b

    def bi_hash(self, v):
        return VInt(S.hash_of(v, self))

    def bi_id(self, v):
        if isinstance(v, VObj):
            return VInt(S.id_of(v.t))
        raise Unsupported("id of non-object")

    def bi_type(self, v):
        if isinstance(v, VNone):
            return VClass("NoneType")
        if isinstance(v, VInt):
            return VClass("int")
        if isinstance(v, VTuple):
            return VClass("tuple")
        if isinstance(v, VDateTime):
            return VClass("datetime")
        if isinstance(v, VDate):
            return VClass("date")
        if isinstance(v, VStr):
            return VClass("str")
        if isinstance(v, VObj) and v.klass == "Qty":
            return VObj(self.heap.get("Qty.__class__", v.t), "QtyCls")
        if isinstance(v, VObj):
            return VClass(v.klass)
        if isinstance(v, VRat):
            kt = v.known_tag()
            if kt is not None:
                return VClass({T_DEC: "Decimal", T_FRAC: "Fraction",
                               T_FLOAT: "float", T_STDDEC: "StdLibDecimal"}[kt])
        return VOpaque("type")

    def bi_int(self, v):
        if isinstance(v, VInt):
            return v
        if isinstance(v, VRat):
            # truncation toward zero
            self.ledger("A1: int(x) truncates toward zero")
            k = self.path.fresh("trunc", z3.IntSort())
            x = v.t
            self.path.assume(z3.If(x >= 0,
                                   z3.And(z3.ToReal(k) <= x, x < z3.ToReal(k) + 1),
                                   z3.And(z3.ToReal(k) >= x, x > z3.ToReal(k) - 1)))
            return VInt(k)
        if isinstance(v, VStr):
            self.ledger("A1: int(str) parses a decimal integer or raises ValueError")
            if self.path.branch(S.str_is_int(v.t)):
                return VInt(S.str_to_int(v.t))
            self.I.raise_("ValueError")
        raise Unsupported(f"int({v!r})")

    def bi_str(self, v):
        return self.format_value(v, -1, None)

    def bi_repr(self, v):
        return self.fresh_str("repr")

    def bi_format(self, v, spec=None):
        return self.format_value(v, -1, spec)

    def bi_print(self, *a, **k):
        return NONE

    def bi_round(self, v, n=None):
        if isinstance(v, VObj):
            return self.I.call_method(v, "__round__", [] if n is None else [n])
        if isinstance(v, VRat):
            self.ledger("A2: round(x, n): decimalfp.Decimal rounds to n "
                        "digits with the default mode, Fraction half-even")
            nd = n.t if isinstance(n, VInt) else z3.IntVal(0)
            scale = S.p10(nd)
            S.p10_facts(self.path, nd)
            mode = S.round_builtin_mode(v.tag)
            k = S.rnd(v.t * scale, mode)
            self.path.assume(S.rnd_fact(v.t * scale, mode))
            if n is None:
                return VInt(k)
            return VRat(z3.ToReal(k) / scale, v.tag)
        raise Unsupported("round")

    def bi_sorted(self, it, key=None, reverse=None):
        items = list(self.iterate(it))
        rev = self.I.truth(reverse) if reverse is not None else False
        keys = [self.I.call(key, [x]) if key is not None else x for x in items]
        # stable insertion sort by pairwise symbolic comparison (concrete length)
        order = list(range(len(items)))
        out: List[int] = []
        for i in order:
            pos = len(out)
            for j, o in enumerate(out):
                lt = self.I.truth(self.I.order("lt", "gt", keys[i], keys[o])) \
                    if not rev else \
                    self.I.truth(self.I.order("gt", "lt", keys[i], keys[o]))
                if lt:
                    pos = j
                    break
            out.insert(pos, i)
        return VList([items[i] for i in out])

    def bi_builtin_sum(self, it, start=None):
        acc = start if start is not None else vint(0)
        import ast as _ast
        for x in self.iterate(it):
            acc = self.I.binop(_ast.Add(), acc, x)
        return acc

    def bi_reduce(self, f, it, init=None):
        acc = init
        for x in self.iterate(it):
            acc = x if acc is None else self.I.call(f, [acc, x])
        if acc is None:
            self.I.raise_("TypeError")
        return acc

    def bi_chain(self, *its):
        def gen():
            for i in its:
                yield from self.iterate(i)
        return VGen(gen)

    def bi_operator_mul(self, a, b):
        import ast as _ast
        return self.I.binop(_ast.Mult(), a, b)

    def bi_operator_truediv(self, a, b):
        import ast as _ast
        return self.I.binop(_ast.Div(), a, b)

    def bi_operator_pow(self, a, b):
        import ast as _ast
        return self.I.binop(_ast.Pow(), a, b)

    def bi_operator_lt(self, a, b):
        return self.I.order("lt", "gt", a, b)

    def bi_operator_le(self, a, b):
        return self.I.order("le", "ge", a, b)

    def bi_operator_gt(self, a, b):
        return self.I.order("gt", "lt", a, b)

    def bi_operator_ge(self, a, b):
        return self.I.order("ge", "le", a, b)

    def bi_get_dflt_rounding_mode(self):
        self.ledger("A2: get_dflt_rounding_mode() returns the configured mode")
        return VInt(S.DFLT_MODE, enum="ROUNDING")

    def bi_object___new__(self, cls=None, *a, **k):
        if isinstance(cls, VObj) and cls.klass == "QtyCls":
            # raw instance of a quantity class; its slots are unset
            q = self.I.alloc("Qty", "qty")
            self.heap.set("Qty.__class__", q.t, cls.t)
            return q
        if isinstance(cls, VClass) and cls.name in ("Unit", "Currency"):
            u = self.I.alloc("Unit", "unit")
            self.init_unset(u)
            self.heap.set("Unit.$is_currency", u.t,
                          z3.BoolVal(cls.name == "Currency"))
            return u
        raise Unsupported(f"object.__new__({cls!r})")

    def bi_object___init__(self, *a, **k):
        return NONE

    def bi_exc_init(self, *a, **k):
        return NONE

    def bi_getattr(self, o, name, *dflt):
        if isinstance(name, VStr):
            s = z3.simplify(name.t)
            if z3.is_string_value(s):
                return self.I.getattr(o, s.as_string())
        raise Unsupported("getattr")

    # math / date ------------------------------------------------------------
    def bi_math_log10(self, x):
        return VOpaque(("log10", x))

    def bi_math_floor(self, x):
        if isinstance(x, VOpaque) and isinstance(x.what, tuple) and \
                x.what[0] == "log10":
            v = x.what[1]
            self.ledger("A2: floor(log10(float(x))) is the exact decimal "
                        "magnitude of x (machine arithmetic treated as "
                        "mathematical)")
            xv = rv(v)
            if self.path.branch(xv <= 0):
                self.I.raise_("ValueError")
            m = S.mag(xv)
            self.path.assume(S.mag_fact(xv))
            S.p10_facts(self.path, m)
            S.p10_facts(self.path, m + 1)
            return VInt(m)
        raise Unsupported("math.floor")

    def bi_date_today(self):
        raise Unsupported("date.today() (wall clock)")

    def bi_date_fromisoformat(self, s):
        """'YYYY-MM-DD' built by an f-string from integers: valid iff the
        fields have exactly 4-2-2 digits and form a calendar date (A2)"""
        self.ledger("A2: date.fromisoformat accepts exactly 'YYYY-MM-DD' "
                    "with a valid calendar date")
        t = getattr(s, "tmpl", None) if isinstance(s, VStr) else None
        if t is None:
            raise Unsupported("date.fromisoformat on an unstructured string")
        fields, ok = [], True
        want = [("int", "04d"), ("lit", "-"), ("int", "02d")]
        if len(t) == 4 and t[3] == ("lit", "-01"):
            pass
        elif len(t) == 5 and t[3] == ("lit", "-") and t[4][0] == "int" and \
                t[4][2] == "02d":
            pass
        else:
            raise Unsupported(f"date string shape {t!r}")
        for (kind, fmt), part in zip(want, t[:3]):
            if part[0] != kind or (kind == "int" and part[2] != fmt) or \
                    (kind == "lit" and part[1] != fmt):
                raise Unsupported(f"date string shape {t!r}")
        y, m = t[0][1], t[2][1]
        d = t[4][1] if len(t) == 5 else z3.IntVal(1)
        good = z3.And(y >= 0, y <= 9999, m >= 0, m <= 99, d >= 0, d <= 99,
                      S.valid_date(y, m, d))
        if not self.path.branch(good):
            self.I.raise_("ValueError")
        return VDate(y, m, d)

    # Decimal methods -------------------------------------------------------
    def bi_Decimal_adjusted(self, x, n=None):
        self.ledger("A2: Decimal.adjusted() reduces precision to the minimum "
                    "without changing the value")
        if n is None:
            return x
        raise Unsupported("adjusted(n)")

    def bi_Decimal_stdnormalize(self, x, context=None):
        """decimal.Decimal.normalize(): strips trailing zeros *and rounds to
        the context precision* (28 significant digits by default), so the
        result is only known to lie within a relative distance of 1e-27 of x;
        it equals x for integers below 10**28 in magnitude"""
        self.ledger("A2: decimal.Decimal.normalize() rounds to the context "
                    "precision (relative error <= 1e-27; exact for integers "
                    "below 1e28)")
        r = self.path.fresh("stdnorm", z3.RealSort())
        eps = z3.RealVal("1/1000000000000000000000000000")
        ax = z3.If(x.t >= 0, x.t, -x.t)
        self.path.assume(z3.And(r - x.t <= ax * eps, x.t - r <= ax * eps))
        self.path.assume(z3.Implies(
            z3.And(z3.IsInt(x.t), ax < z3.RealVal(10 ** 28)), r == x.t))
        return VRat(r, x.tag)

    def bi_Decimal_quantize(self, x, quant, rounding=None):
        self.ledger("A2: Decimal.quantize(q, rounding) = nearest multiple of "
                    "q per rounding mode (default mode when None)")
        q = rv(quant)
        if isinstance(rounding, (VNone, type(None))):
            mode = S.DFLT_MODE
        elif isinstance(rounding, VInt):
            mode = rounding.t
        else:
            raise Unsupported("rounding arg")
        if self.path.branch(q == 0):
            self.I.raise_("ZeroDivisionError")
        if not self.path.branch(z3.And(mode >= 0, mode < 8)):
            self.I.raise_("ValueError")
        k = S.rnd(x.t / q, mode)
        self.path.assume(S.rnd_fact(x.t / q, mode))
        t = self.path.fresh("tag", z3.IntSort())
        self.path.assume(z3.Or(t == T_DEC, t == T_FRAC))
        return VRat(z3.ToReal(k) * q, t)

    # list / str / dict methods --------------------------------------------
    def bi_VList_append(self, l, x):
        l.items.append(x)
        return NONE

    def bi_VList_extend(self, l, it):
        l.items.extend(self.iterate(it))
        return NONE

    def bi_VDictLit_pop(self, d, k, *dflt):
        key = self.lit_key(k)
        if key in d.items:
            return d.items.pop(key)
        if dflt:
            return dflt[0]
        self.I.raise_("KeyError")

    def bi_VDictLit_keys(self, d):
        return VList([VStr(z3.StringVal(k)) for k in d.items
                      if isinstance(k, str)])

    def bi_VDictLit_setdefault(self, d, k, v):
        return d.items.setdefault(self.lit_key(k), v)

    def bi_VStr_format(self, s, *a, **k):
        """str.format for a concrete template of plain {name} fields"""
        import re as _re
        st = z3.simplify(s.t)
        if z3.is_string_value(st) and not a:
            tmpl = st.as_string()
            parts, pos, ok = [], 0, True
            for m in _re.finditer(r"\{([A-Za-z_][A-Za-z0-9_]*)\}", tmpl):
                if "{" in tmpl[pos:m.start()] or "}" in tmpl[pos:m.start()]:
                    ok = False
                parts.append(VStr(z3.StringVal(tmpl[pos:m.start()])))
                if m.group(1) not in k:
                    self.I.raise_("KeyError")
                parts.append(self.format_value(k[m.group(1)], -1, None))
                pos = m.end()
            rest = tmpl[pos:]
            if "{" in rest or "}" in rest:
                ok = False
            if ok and all(isinstance(p, VStr) for p in parts):
                parts.append(VStr(z3.StringVal(rest)))
                return VStr(z3.Concat(*[p.t for p in parts]))
        return self.fresh_str("fmt")

    def bi_VStr_isdigit(self, s):
        return VBool(S.str_is_int(s.t))

    def bi_VStr_split(self, s, *a):
        raise Unsupported("str.split (string parsing is a bounded stand-in)")

    def bi_VStr_lstrip(self, s, *a):
        raise Unsupported("str.lstrip")

    def bi_VStr_strip(self, s, *a):
        raise Unsupported("str.strip")

    def bi_Dict_values(self, d):
        raise Unsupported("dict.values() of a symbolic dict")

    def bi_Dict_update(self, d, it):
        for kv in self.iterate(it):
            k, v = list(self.iterate(kv))
            self.setitem(d, k, v)
        return NONE

    def bi_Dict_setdefault(self, d, k, dflt=NONE):
        key = M.to_key(self.dict_kind(d), k, self.I)
        if self.path.branch(z3.Select(self.dict_dom(d), key)):
            return self.dict_lookup(d, key)
        self.dict_store(d, key, dflt)
        return dflt

    def bi_Dict_get(self, d, k, dflt=NONE):
        key = M.to_key(self.dict_kind(d), k, self.I)
        if self.path.branch(z3.Select(self.dict_dom(d), key)):
            return self.dict_lookup(d, key)
        return dflt

    def bi_List_append(self, l, x):
        ek = self.list_elem_klass(l)
        if isinstance(x, VList) and ek.startswith("List:") and \
                all(isinstance(i, VObj) for i in x.items):
            # a list literal appended to a list of lists becomes a heap list
            x = self.new_list(ek.split(":", 1)[1], x.items)
        if not isinstance(x, VObj):
            raise Unsupported("append non-object to heap list")
        if self.is_alist(l):
            n = self.alist_len(l)
            self.heap.set("AList.$arr", l.t,
                          z3.Store(self.heap.get("AList.$arr", l.t), n, x.t))
            self.heap.set("AList.$len", l.t, n + 1)
            return NONE
        seq = self.heap.get("List.$seq", l.t)
        self.heap.set("List.$seq", l.t, z3.Concat(seq, z3.Unit(x.t)))
        return NONE

    def bi_List_pop(self, l, *a):
        if a:
            raise Unsupported("list.pop(i)")
        seq = self.heap.get("List.$seq", l.t)
        n = z3.Length(seq)
        if self.path.branch(n == 0):
            self.I.raise_("IndexError")
        last = seq[n - 1]
        self.heap.set("List.$seq", l.t, z3.Extract(seq, 0, n - 1))
        return VObj(last, self.list_elem_klass(l))

    def bi_List_remove(self, l, x):
        if not isinstance(x, VObj):
            raise Unsupported("remove non-object")
        seq = self.heap.get("List.$seq", l.t)
        u = z3.Unit(x.t)
        if not self.path.branch(z3.Contains(seq, u)):
            self.I.raise_("ValueError")
        i = z3.IndexOf(seq, u, 0)
        n = z3.Length(seq)
        self.heap.set("List.$seq", l.t,
                      z3.Concat(z3.Extract(seq, 0, i),
                                z3.Extract(seq, i + 1, n - i - 1)))
        return NONE

    # ------------------------------------------------------------- formatting
    def format_value(self, v: V, conversion: int, spec) -> V:
        if isinstance(v, VStr) and spec is None and conversion in (-1, 115):
            return v
        if isinstance(v, VObj) and conversion in (-1, 115) and spec is None \
                and self.I.has_method(v, "__str__") and \
                v.klass in ("Unit", "Currency"):
            return self.I.call_method(v, "__str__", [])
        if isinstance(v, (VInt, VRat)) and conversion in (-1, 115) and \
                spec is None:
            return VStr(S.str_of_num(rv(v), tag_of(v)))
        if isinstance(v, (VInt,)) and spec is not None:
            # f"{x:04d}" etc.
            r = self.fresh_str("fmtint")
            sp = z3.simplify(spec.t) if isinstance(spec, VStr) else None
            fmt = sp.as_string() if sp is not None and z3.is_string_value(sp) \
                else None
            return VStr(r.t, [("int", v.t, fmt)])
        if isinstance(v, VStr) and spec is not None:
            self.I.raise_("ValueError")
        return self.fresh_str("str")

    # ------------------------------------------------------------ construction
    def construct(self, c: VClass, args: List[V], kwargs: Dict[str, V]) -> V:
        n = c.name
        if n in EXC_NAMES:
            return VExc(n, list(args))
        m = getattr(self, "new_" + n, None)
        if m is not None:
            return m(*args, **kwargs)
        ci = self.I.pkg.find_class(n)
        if ci is not None:
            return self.construct_user(ci, args, kwargs)
        raise Unsupported(f"constructor {n}")

    def construct_user(self, ci, args, kwargs) -> V:
        klass = None
        for k, (mod, cn) in M.KLASS_PY.items():
            if cn == ci.name and mod == ci.module:
                klass = k
        if klass is None:
            raise Unsupported(f"no object model for class {ci.name}")
        init = self.I.pkg.lookup(ci, "__init__")
        new = self.I.pkg.lookup(ci, "__new__")
        if new is not None and new[0] == "func":
            return self.I.call_user(new[1], [VClass(ci.name)] + list(args),
                                    kwargs)
        key = f"{ci.module}:{ci.name}.__init__"
        if key in self.I.summaries and key not in self.I.inline_only and \
                not (self.I.depth == 0 and key == self.I.top_key):
            return self.I.summaries[key].apply(self.I, list(args), kwargs,
                                               constructing=klass)
        obj = self.I.alloc(klass, ci.name.lower())
        self.init_unset(obj)
        if init is not None and init[0] == "func":
            self.I.call_user(init[1], [obj] + list(args), kwargs)
        return obj

    def init_unset(self, obj: VObj) -> None:
        sk = self.I.schema_klass(obj.klass)
        for (k, f) in self.heap.schema.maybe_unset:
            if k == sk:
                self.heap.set(self.heap.schema.array_name(k, f) + "#unset",
                              obj.t, z3.BoolVal(True))

    def new_Decimal(self, x=None, prec=None):
        if x is None:
            return VRat(z3.RealVal(0), z3.IntVal(T_DEC))
        if prec is not None:
            return self.decimal_rounded(x, prec)
        if isinstance(x, VInt):
            return VRat(z3.ToReal(x.t), z3.IntVal(T_DEC))
        if isinstance(x, VRat):
            kt = x.known_tag()
            if kt == T_DEC:
                return x
            if kt is None:
                if self.path.branch(x.tag == T_DEC):
                    return VRat(x.t, z3.IntVal(T_DEC))
            if kt == T_STDDEC or (kt is None and
                                  self.path.branch(x.tag == T_STDDEC)):
                self.ledger("A2: Decimal(decimal.Decimal) converts exactly")
                return VRat(x.t, z3.IntVal(T_DEC))
            if kt == T_FLOAT or (kt is None and
                                 self.path.branch(x.tag == T_FLOAT)):
                # every finite float has a finite decimal expansion (A2);
                # callers guarding with `except ValueError` (inf / nan) are
                # outside the model (floats are finite reals here)
                self.ledger("A2: Decimal(finite float) converts exactly")
                return VRat(x.t, z3.IntVal(T_DEC))
            # Fraction: exact if representable, else ValueError (A2)
            self.ledger("A2: Decimal(Fraction) converts exactly or "
                        "raises ValueError")
            if self.path.branch(S.dec_representable(x.t)):
                return VRat(x.t, z3.IntVal(T_DEC))
            self.I.raise_("ValueError")
        if isinstance(x, VStr):
            sx = z3.simplify(x.t)
            if z3.is_string_value(sx):
                try:
                    fr = Fraction(sx.as_string())
                    return VRat(z3.RealVal(f"{fr.numerator}/{fr.denominator}"),
                                z3.IntVal(T_DEC))
                except (ValueError, ZeroDivisionError):
                    self.I.raise_("ValueError")
            self.ledger("A2: Decimal(str) parses exactly or raises ValueError")
            if self.path.branch(S.str_is_decimal(x.t)):
                return VRat(S.str_to_real(x.t), z3.IntVal(T_DEC))
            self.I.raise_("ValueError")
        self.I.raise_("TypeError")

    def decimal_rounded(self, x: V, prec: V) -> V:
        """Decimal(x, n): x rounded to n fractional digits with the default
        rounding mode (A2)."""
        self.ledger("A2: Decimal(x, n) rounds x to n fractional digits with "
                    "the default rounding mode")
        if not isinstance(prec, VInt):
            raise Unsupported("precision")
        xv = rv(x)
        scale = S.p10(prec.t)
        S.p10_facts(self.path, prec.t)
        sp = z3.simplify(prec.t)
        arg = xv if (z3.is_int_value(sp) and sp.as_long() == 0) else xv * scale
        k = S.rnd(arg, S.DFLT_MODE)
        self.path.assume(S.rnd_fact(arg, S.DFLT_MODE))
        if z3.is_int_value(sp) and sp.as_long() == 0:
            return VRat(z3.ToReal(k), z3.IntVal(T_DEC))
        return VRat(z3.ToReal(k) / scale, z3.IntVal(T_DEC))

    def new_Fraction(self, x=None, d=None):
        if x is None:
            return VRat(z3.RealVal(0), z3.IntVal(T_FRAC))
        if d is not None:
            if self.path.branch(rv(d) == 0):
                self.I.raise_("ZeroDivisionError")
            return VRat(rv(x) / rv(d), z3.IntVal(T_FRAC))
        if isinstance(x, VInt):
            return VRat(z3.ToReal(x.t), z3.IntVal(T_FRAC))
        if isinstance(x, VRat):
            self.ledger("A2: Fraction(number) converts exactly")
            return VRat(x.t, z3.IntVal(T_FRAC))
        if isinstance(x, VStr):
            self.ledger("A2: Fraction(str) parses exactly or raises "
                        "ValueError / ZeroDivisionError")
            if self.path.branch(S.str_is_fraction(x.t)):
                return VRat(S.str_to_real(x.t), z3.IntVal(T_FRAC))
            if self.path.branch(S.str_is_zero_div(x.t)):
                self.I.raise_("ZeroDivisionError")
            self.I.raise_("ValueError")
        self.I.raise_("TypeError")

    def new_date(self, y, m, d):
        self.ledger("A2: date(y, m, d) raises ValueError unless it is a "
                    "valid calendar date")
        if not (isinstance(y, VInt) and isinstance(m, VInt) and
                isinstance(d, VInt)):
            self.I.raise_("TypeError")
        if not self.path.branch(S.valid_date(y.t, m.t, d.t)):
            self.I.raise_("ValueError")
        return VDate(y.t, m.t, d.t)

    def new_MappingProxyType(self, d):
        return d

    def new_Term(self, items=None, reduce_items=None):
        key = "quantity.term:Term.__init__"
        if key in self.I.summaries:
            a = [] if items is None else [items]
            kw = {} if reduce_items is None else {"reduce_items": reduce_items}
            return self.I.summaries[key].apply(self.I, a, kw,
                                               constructing="Term")
        raise Unsupported("Term construction without Term contract")

    def call_object(self, f: VObj, args, kwargs) -> V:
        if f.klass in ("AnyConv", "TableConverter", "MoneyConverter",
                       "Converter"):
            return self.call_converter(f, args, kwargs)
        if self.I.has_method(f, "__call__"):
            return self.I.call_method(f, "__call__", args, kwargs=kwargs)
        raise Unsupported(f"call of object {f.klass}")

    def call_converter(self, conv: VObj, args, kwargs) -> V:
        if conv.klass in ("TableConverter", "MoneyConverter"):
            return self.I.call_method(conv, "__call__", args, kwargs=kwargs)
        hook = getattr(self.I, "opaque_converter", None)
        if hook is None:
            raise Unsupported("call of an opaque converter")
        return hook(conv, args)


TYPE_FUNCS = {"float", "int", "str", "tuple", "list", "dict", "bool"}

EXC_NAMES = {"BaseException", "Exception", "ArithmeticError", "LookupError",
             "ValueError", "TypeError", "AssertionError", "AttributeError",
             "KeyError", "IndexError", "ZeroDivisionError", "OverflowError",
             "StopIteration", "NotImplementedError", "QuantityError",
             "IncompatibleUnitsError", "UndefinedResultError",
             "UnitConversionError"}
