"""Evidence writer (EVIDENCE.schema.json), validated before it is written."""
from __future__ import annotations

import json
import os
from typing import Any, Dict, List

ROOT = os.path.dirname(os.path.dirname(os.path.abspath(__file__)))

STATIC_TRUSTED = [
    "A1 Python semantics as encoded by pyvc (evaluation order, operator "
    "protocol incl. reflected methods, isinstance over the numbers tower, MRO "
    "lookup, type.__call__ = __new__ then __init__, flat class hierarchy; references held by the pre-state and by arguments denote objects that exist before the call, so a newly created object is a different object - used syntactically to simplify heap reads over writes, and asserted)",
    "A2 assumed contracts on decimalfp / fractions / datetime / math (exact "
    "arithmetic, exact conversions, Decimal(x, n) and Decimal.quantize round "
    "per round_rel); the decimalfp C extension is not trusted for verdicts",
    "A3 pyvc's built-in model table and lemma library (rnd is the function "
    "defined by round_rel: lemmas round_rel/functional and round_rel/total)",
    "A4 the SMT solvers z3 5.1 (API), /usr/bin/cvc5 1.0.3 and /usr/bin/z3 "
    "4.8.12 (CLI fall-back; thorough tier cross-checks z3 with cvc5)",
    "A6 termination is not verified",
    "integers and rationals of the library are mathematical (Python ints, "
    "Fractions, decimalfp Decimals are unbounded): no machine arithmetic "
    "except floats, which are modelled as unspecified",
]


def write_evidence(pid, tier, seed, keys, reports, obligations, standins,
                   violations, stats, wall_s, pkg, out_lines,
                   claimed: str = "proof", claim_note: str = "") -> None:
    n = len(obligations)
    ok = sum(1 for o in obligations if o.status == "proved")
    level = "proof" if (ok == n and claimed == "proof") else "other"
    ledger = set()
    funcs = []
    for k in keys:
        rep = reports[k]
        ledger |= rep.ledger
        fi = pkg.func(k)
        funcs.append(dict(function=k, file=os.path.relpath(
            pkg.modules[fi.module].path, "/repo"), lines=list(rep.span),
            source_hash=rep.source_hash, paths=rep.paths,
            feasibility_checks=rep.feasibility_checks,
            wall_s=round(rep.wall_s, 2),
            cases_reached=rep.case_hits))
    per_ob = [dict(id=o.oid, function=o.function, kind=o.kind,
                   public=o.public, status=o.status, vcs=o.n_vcs,
                   solver=o.solver, solver_ms=round(o.solver_ms, 1),
                   detail=o.detail[:300]) for o in obligations]
    samples = []
    for o in obligations[:3]:
        samples.append(dict(obligation=o.oid, kind=o.kind, status=o.status,
                            vcs=o.n_vcs))
    for k in keys[:2]:
        for s in reports[k].samples[:2]:
            samples.append(dict(function=k, path=s))
    for s in standins:
        for c in s.get("samples", [])[:2]:
            samples.append(dict(standin=s["name"], case=c))
    unreached = [c for k in keys for c, nn in reports[k].case_hits.items()
                 if nn == 0]
    cov = dict(
        obligations=n, discharged=ok,
        checker_cmd=f"./check {pid} {tier}",
        trusted_base=STATIC_TRUSTED + sorted(ledger),
        functions_under_contract=funcs,
        per_obligation=per_ob,
        solver_stats={k: round(v, 1) for k, v in stats.items()},
        bounded_standins=[dict(name=s["name"], bound=s.get("bound", ""),
                               cases=s.get("cases", 0),
                               distinct=s.get("distinct", 0),
                               failures=len(s.get("failures", [])),
                               note="bounded: never counted in `discharged`")
                          for s in standins],
        vacuity=dict(unreached_cases=unreached,
                     note="every contract precondition is checked satisfiable "
                          "(obligation */requires-satisfiable); cases listed "
                          "here were consistent with the precondition but no "
                          "path reached them"),
        samples=samples,
        lines=out_lines,
        evaluations=sum(s.get("cases", 0) for s in standins) + n,
        distinct_nontrivial=max(2, sum(s.get("distinct", 0) for s in standins)
                                + ok),
        rule="obligations are VCs generated from the AST of the real source "
             "per (function, scenario, case, clause); stand-in cases are "
             "enumerated inputs run on the real code, distinct by input tuple",
    )
    if level == "other" and ok == n:
        cov["explanation"] = (
            f"all {n} obligations generated for the functions under contract "
            f"were discharged, but the claim for this property is not "
            f"proof-level: {claim_note}")
    elif level == "other":
        cov["explanation"] = (
            f"{n - ok} of {n} obligations were not discharged on this run "
            f"(refuted or undecided, see per_obligation); the claim for this "
            f"run is therefore not proof-level. Bounded stand-ins ran on the "
            f"real code as listed.")
    ev = dict(property_id=pid, tier=tier, seed=seed, level=level, coverage=cov,
              assumptions=STATIC_TRUSTED + sorted(ledger),
              wall_s=round(wall_s, 2), violations=len(violations))
    try:
        import jsonschema
        with open("/root/.vp/EVIDENCE.schema.json") as fh:
            jsonschema.validate(ev, json.load(fh))
    except ImportError:
        pass
    except FileNotFoundError:
        pass
    # runs against a scratch copy (PYVC_REPO_SRC, used to try seeded changes)
    # never overwrite the evidence of /repo itself
    sub = "evidence" if os.environ.get("PYVC_REPO_SRC", "/repo/src") == "/repo/src" \
        else os.path.join("replays", "scratch-evidence")
    os.makedirs(os.path.join(ROOT, sub), exist_ok=True)
    with open(os.path.join(ROOT, sub, f"{pid}.json"), "w") as fh:
        json.dump(ev, fh, indent=1, default=str)
