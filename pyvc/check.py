"""./check <Cxx> quick|thorough   -- decide one property on /repo's current tree.

Exit codes: 0 held (possibly KNOWN-FINDING / UNDECIDED lines), 1 at least one
`VIOLATION property=<id> replay=<path>` line, 3 engine error.
"""
from __future__ import annotations

import hashlib
import json
import multiprocessing as mp
import os
import subprocess
import sys
import time
import traceback
from typing import Any, Dict, List, Optional, Tuple

ROOT = os.path.dirname(os.path.dirname(os.path.abspath(__file__)))
sys.path.insert(0, ROOT)

REPO_SRC = os.environ.get("PYVC_REPO_SRC", "/repo/src")
RUNTIME_PY = "/venv/bin/python"


def _verify_one(args):
    key, inline_only, budget_ms = args[:3]
    only = args[3] if len(args) > 3 else None
    try:
        import z3  # noqa
        from pyvc import verify as V
        from pyvc.contract import REGISTRY
        from pyvc.extract import Package
        from pyvc.model import make_schema
        from pyvc.run import load_contracts
        load_contracts()
        V.PROOF_TIMEOUT_MS = budget_ms
        pkg = Package(REPO_SRC)
        c = REGISTRY[key]
        summaries = {k: x for k, x in REGISTRY.items() if x.summarize}
        rep = V.verify_function(pkg, c, summaries, make_schema(),
                                inline_only=set(inline_only) |
                                set(getattr(c, "inline", ())),
                                only_scenarios=None if only is None else {only})
        from pyvc import solve
        return key, rep, dict(solve.STATS), None
    except Exception:
        return key, None, {}, traceback.format_exc()


LARGE_IN_QUICK = {"C01", "C02", "C03", "C04", "C05", "C08", "C09", "C10", "C11",
                  "C12", "C13", "C14", "C15", "C16", "C17", "C18", "C19", "C20"}


def run_standin(name: str, tier: str, seed: int, hints: List[dict]) -> dict:
    """bounded stand-in / replay harness: real code under /venv/bin/python with
    the pure-Python decimalfp (the C extension corrupts the heap)."""
    env = dict(os.environ)
    env["PYTHONPATH"] = REPO_SRC + os.pathsep + ROOT
    env["DECIMALFP_FORCE_PYTHON_IMPL"] = "1"
    env.pop("PYTHONHASHSEED", None)
    # these stand-ins finish in seconds even at their larger bounds (the
    # pure-Python decimalfp shortcut of the harness): the quick tier runs them
    # at the bounds of the thorough tier
    if tier == "quick" and name in LARGE_IN_QUICK:
        tier = "thorough"
    job = json.dumps(dict(name=name, tier=tier, seed=seed, hints=hints))
    try:
        r = subprocess.run([RUNTIME_PY, "-m", "runtime.harness"], input=job,
                           capture_output=True, text=True, env=env, cwd=ROOT,
                           timeout=3000)
    except subprocess.TimeoutExpired:
        return dict(error="stand-in timed out")
    if r.returncode != 0:
        return dict(error=f"stand-in crashed (exit {r.returncode}): "
                          f"{r.stderr[-2000:]}")
    try:
        return json.loads(r.stdout.strip().splitlines()[-1])
    except Exception as e:
        return dict(error=f"stand-in output unreadable: {e}: {r.stdout[-500:]}")


def model_hint(o) -> dict:
    """numeric values of a counter-model, as seeds for the replay harness"""
    out = {}
    for k, v in (o.model or {}).items():
        if any(k.startswith(p) for p in ("G_", "C_", "H!$alloc")):
            continue
        out[k] = v
    return dict(obligation=o.oid, model=out)


def main(argv: List[str]) -> int:
    if len(argv) < 2:
        print("usage: check <Cxx> quick|thorough | check <Cxx> --replay <file>")
        return 3
    pid = argv[1]
    if len(argv) >= 4 and argv[2] == "--replay":
        return replay(pid, argv[3])
    tier = argv[2] if len(argv) > 2 else os.environ.get("VERIF_TIER", "quick")
    if tier not in ("quick", "thorough"):
        tier = "quick"
    seed = int(os.environ.get("VERIF_SEED", "0") or 0)
    t0 = time.time()
    try:
        return _check(pid, tier, seed, t0)
    except SystemExit:
        raise
    except Exception:
        traceback.print_exc()
        print(f"ENGINE-ERROR property={pid}")
        return 3


def replay(pid: str, path: str) -> int:
    with open(path) as fh:
        rp = json.load(fh)
    print(json.dumps({k: rp[k] for k in rp if k != "smt2"}, indent=1)[:4000])
    if rp.get("standin") and rp.get("input") is not None:
        res = run_standin(rp["standin"], "replay", 0, [dict(replay=rp["input"])])
        print(json.dumps(res)[:3000])
        if res.get("failures"):
            print(f"VIOLATION property={pid} replay={path}")
            return 1
        return 0
    print(f"VIOLATION property={pid} replay={path} no-failing-input-found")
    return 1


def _check(pid: str, tier: str, seed: int, t0: float) -> int:
    from pyvc.props import PROPS
    from pyvc import findings as F
    if pid not in PROPS:
        print(f"property {pid} is not claimed (see MANIFEST.json not_applicable)")
        return 3
    cfg = PROPS[pid]
    budget_ms = 8000 if tier == "quick" else 40000
    if tier == "thorough":
        os.environ["PYVC_BOTH_SOLVERS"] = "1"
        # allocate: ratio lists of length 2 as well (one process per scenario)
        os.environ.setdefault("PYVC_ALLOC_NMAX", "2")
    keys = list(dict.fromkeys(cfg.get("functions", [])))
    from pyvc.run import load_contracts
    from pyvc.contract import REGISTRY
    from pyvc.extract import Package, frame_scan
    load_contracts()
    pkg = Package(REPO_SRC)
    missing = [k for k in keys if k not in REGISTRY]
    if missing:
        raise RuntimeError(f"no contract for {missing}")
    # stand-ins start right away in the background (they do not depend on the
    # proofs; they are re-run with the counter-models as seeds if any exist)
    from concurrent.futures import ThreadPoolExecutor
    tpe = ThreadPoolExecutor(max_workers=4)
    early = {name: tpe.submit(run_standin, name, tier, seed, [])
             for name in cfg.get("standins", [])}
    # ---- deductive part (parallel, one process per function) --------------
    # contracts with long scenarios are verified one process per scenario
    items = []
    for k in keys:
        if getattr(REGISTRY[k], "split_scenarios", False):
            items += [(k, (), budget_ms, sc.name) for sc in REGISTRY[k].scenarios()]
        else:
            items.append((k, (), budget_ms))
    nproc = max(1, min(14, len(items)))
    reports: Dict[str, Any] = {}
    stats_total: Dict[str, float] = {}
    errors: List[str] = []
    if keys:
        with mp.get_context("fork").Pool(nproc) as pool:
            for key, rep, stats, err in pool.imap_unordered(
                    _verify_one, items):
                if err:
                    errors.append(f"{key}: {err}")
                    continue
                if key in reports:          # another scenario of the same function
                    reports[key].obligations.update(rep.obligations)
                    reports[key].paths += rep.paths
                    reports[key].feasibility_checks += rep.feasibility_checks
                    reports[key].wall_s = max(reports[key].wall_s, rep.wall_s)
                    for ck, cv in rep.case_hits.items():
                        reports[key].case_hits[ck] = \
                            reports[key].case_hits.get(ck, 0) + cv
                    reports[key].ledger |= rep.ledger
                else:
                    reports[key] = rep
                for k, v in stats.items():
                    stats_total[k] = stats_total.get(k, 0) + v
    if errors:
        for e in errors:
            print(e)
        print(f"ENGINE-ERROR property={pid}: verifier crashed")
        return 3
    obligations = []
    for key in keys:
        rep = reports[key]
        for o in rep.obligations.values():
            if o.kind in ("ensures", "outcome", "frame") and o.props and \
                    pid not in o.props:
                continue            # clause belongs to another property
            obligations.append(o)
    # ---- lemmas --------------------------------------------------------------
    from pyvc.lemmas import LEMMAS
    from pyvc.solve import check_unsat
    from pyvc.verify import Obligation
    import z3
    for lid, (props, fn, note) in LEMMAS.items():
        if pid not in props:
            continue
        assm, goal = fn()
        o = Obligation(f"lemma/{lid}", "<lemma>", "lemma", False, list(props))
        o.merge(check_unsat(list(assm) + [z3.Not(goal)], max(budget_ms, 20000)),
                note)
        o.detail = o.detail or note
        obligations.append(o)
    # ---- ground obligations (finite tables compared exactly) ------------------
    if cfg.get("ground") == "catalogue":
        from pyvc.catalog import catalogue_obligations
        for gid, ok, detail in catalogue_obligations(pkg):
            o = Obligation(f"ground/{gid}", "quantity.predefined:<module>",
                           "ground", True, [pid])
            o.n_vcs = 1
            o.solver = "exact-rational"
            o.detail = detail
            if not ok:
                o.status = "refuted"
                o.model = {"observed": detail}
            obligations.append(o)
    # ---- frame scan ----------------------------------------------------------
    from pyvc.framecheck import frame_obligations
    obligations += frame_obligations(pkg, cfg.get("frame", []))
    if not obligations:
        print(f"ENGINE-ERROR property={pid}: zero obligations generated")
        return 3
    # ---- verdicts ------------------------------------------------------------
    refuted = [o for o in obligations if o.status == "refuted"]
    undecided = [o for o in obligations if o.status == "undecided"]
    # private helper refuted: re-verify the public clients with it inlined
    stale: List[str] = []
    priv = [o for o in refuted if not o.public and o.kind != "lemma"
            and o.function in REGISTRY]
    if priv:
        helpers = sorted({o.function for o in priv})
        pub_keys = [k for k in keys if REGISTRY[k].public]
        with mp.get_context("fork").Pool(max(1, min(12, len(pub_keys)))) as pool:
            for key, rep, stats, err in pool.imap_unordered(
                    _verify_one, [(k, tuple(helpers), budget_ms)
                                  for k in pub_keys]):
                if err:
                    print(err)
                    print(f"ENGINE-ERROR property={pid}")
                    return 3
                reports[key + "#inlined"] = rep
                for o in rep.obligations.values():
                    if o.kind in ("ensures", "outcome", "frame") and o.props \
                            and pid not in o.props:
                        continue
                    if o.public and o.status != "proved":
                        o.oid += "#helpers-inlined"
                        obligations.append(o)
                        (refuted if o.status == "refuted" else undecided).append(o)
        stale = helpers
    pub_refuted = [o for o in refuted if o.public]
    hints = [model_hint(o) for o in refuted if o.model]
    # ---- bounded stand-ins (always run; seeded with the counter-models) ------
    standins = []
    failures = []
    for name in cfg.get("standins", []):
        res = early[name].result()
        if hints and not res.get("error") and not res.get("failures"):
            # replay: seed the stand-in with the solver's counter-models
            res2 = run_standin(name, tier, seed, hints)
            if res2.get("error") or res2.get("failures"):
                res = res2
        res["name"] = name
        standins.append(res)
        if res.get("error"):
            print(f"ENGINE-ERROR property={pid}: {res['error']}")
            return 3
        for f in res.get("failures", []):
            f["standin"] = name
            failures.append(f)
    # ---- known findings ------------------------------------------------------
    known = F.load()
    out_lines: List[str] = []
    violations: List[dict] = []
    by_check: Dict[str, dict] = {}
    still_failing: Dict[str, dict] = {}
    for f in failures:
        kf = F.match(known, pid, f)
        if kf is not None:
            still_failing[kf["id"]] = kf
            continue
        v = by_check.get(f.get("check"))
        if v is None:
            v = dict(kind="failing-input", obligation=f.get("check"),
                     standin=f["standin"], input=f.get("input"),
                     observed=f.get("observed"), expected=f.get("expected"),
                     more_failing_inputs=[])
            by_check[f.get("check")] = v
            violations.append(v)
        elif len(v["more_failing_inputs"]) < 8:
            v["more_failing_inputs"].append(dict(
                input=f.get("input"), observed=f.get("observed"),
                expected=f.get("expected")))
    for o in pub_refuted:
        if F.match_obligation(known, pid, o.oid):
            continue
        related = [v for v in violations if v["kind"] == "failing-input"]
        if related:
            for v in related:
                v.setdefault("failed_obligations", []).append(o.oid)
            continue
        violations.append(dict(kind="refuted-obligation", obligation=o.oid,
                               detail=o.detail, model=o.model, smt2=o.smt2,
                               no_failing_input=True))
    for kf in still_failing.values():
        # the listed defect is still present on this tree (its witness class
        # failed in the stand-in); a stale entry prints nothing
        out_lines.append(f"KNOWN-FINDING: property={pid} {kf['what']}")
    for h in stale:
        out_lines.append(f"AUX-CONTRACT-STALE helper={h} (public clauses "
                         f"re-verified with the helper inlined)")
    for o in undecided:
        out_lines.append(f"UNDECIDED obligation={o.oid} reason={o.detail[:160]}")
    for o in refuted:
        if not o.public:
            out_lines.append(f"HELPER-REFUTED obligation={o.oid} "
                             f"({o.detail[:120]})")
    # replay files
    os.makedirs(os.path.join(ROOT, "replays"), exist_ok=True)
    for old in os.listdir(os.path.join(ROOT, "replays")):
        if old.startswith(pid + "-"):
            os.unlink(os.path.join(ROOT, "replays", old))
    rc = 0
    for v in violations:
        h = hashlib.sha256(json.dumps(v, sort_keys=True, default=str)
                           .encode()).hexdigest()[:10]
        name = f"{pid}-{(v.get('obligation') or 'standin').replace('/', '_').replace(':', '_')[:80]}-{h}.json"
        path = os.path.join("replays", name)
        v["property"] = pid
        with open(os.path.join(ROOT, path), "w") as fh:
            json.dump(v, fh, indent=1, default=str)
        suffix = " no-failing-input-found" if v.get("no_failing_input") else ""
        out_lines.append(f"VIOLATION property={pid} replay={path}{suffix}")
        rc = 1
    # ---- evidence --------------------------------------------------------------
    from pyvc.evidence import write_evidence
    write_evidence(pid, tier, seed, keys, reports, obligations, standins,
                   violations, stats_total, time.time() - t0, pkg, out_lines,
                   claimed=cfg.get("level", "proof"),
                   claim_note=cfg.get("level_note", ""))
    n_ok = sum(1 for o in obligations if o.status == "proved")
    print(f"{pid} {tier}: {len(obligations)} obligations, {n_ok} discharged, "
          f"{len(refuted)} refuted, {len(undecided)} undecided; "
          f"stand-ins: " + ", ".join(
              f"{s['name']}={s.get('cases', 0)} cases/{len(s.get('failures', []))} "
              f"failing" for s in standins) +
          f"; wall {time.time() - t0:.1f}s")
    for l in out_lines:
        print(l)
    return rc


if __name__ == "__main__":
    sys.exit(main(sys.argv))
