"""Reads literal data of the real source from its AST (never imports it):
the predefined temperature conversion table, SI prefixes, catalogue
declarations.  Literals are evaluated to exact Fractions."""
from __future__ import annotations

import ast
import os
from fractions import Fraction
from typing import Dict, List, Optional, Tuple

from .extract import Package, REPO_SRC


def literal(e: ast.expr, env: Optional[dict] = None) -> Fraction:
    """exact value of Decimal('..') / Decimal(n) / Fraction(a, b) / ints /
    products and powers of those"""
    env = env or {}
    if isinstance(e, ast.Constant):
        if isinstance(e.value, bool):
            raise ValueError("bool")
        if isinstance(e.value, int):
            return Fraction(e.value)
        if isinstance(e.value, str):
            return Fraction(e.value)
        if isinstance(e.value, float):
            return Fraction(e.value)
    if isinstance(e, ast.UnaryOp) and isinstance(e.op, ast.USub):
        return -literal(e.operand, env)
    if isinstance(e, ast.Call) and isinstance(e.func, ast.Name):
        if e.func.id == "Decimal" and len(e.args) == 1:
            return literal(e.args[0], env)
        if e.func.id == "Fraction":
            if len(e.args) == 2:
                return literal(e.args[0], env) / literal(e.args[1], env)
            return literal(e.args[0], env)
    if isinstance(e, ast.BinOp):
        a, b = literal(e.left, env), literal(e.right, env)
        if isinstance(e.op, ast.Mult):
            return a * b
        if isinstance(e.op, ast.Div):
            return a / b
        if isinstance(e.op, ast.Pow):
            if b.denominator != 1:
                raise ValueError("non-integer power")
            return a ** int(b)
        if isinstance(e.op, ast.Add):
            return a + b
        if isinstance(e.op, ast.Sub):
            return a - b
    if isinstance(e, ast.Name) and e.id in env:
        return env[e.id]
    raise ValueError(f"not a literal: {ast.dump(e)[:80]}")


def temperature_rows(pkg: Optional[Package] = None) \
        -> Dict[Tuple[str, str], Tuple[Fraction, Fraction]]:
    pkg = pkg or Package(REPO_SRC)
    mi = pkg.modules["quantity.predefined"]
    node = mi.assigns.get("_temp_conv")
    if not isinstance(node, (ast.List, ast.Tuple)):
        raise ValueError("_temp_conv is not a list literal")
    rows = {}
    for el in node.elts:
        if not (isinstance(el, ast.Tuple) and len(el.elts) == 4 and
                isinstance(el.elts[0], ast.Name) and
                isinstance(el.elts[1], ast.Name)):
            raise ValueError("row shape")
        rows[(el.elts[0].id, el.elts[1].id)] = (literal(el.elts[2]),
                                                literal(el.elts[3]))
    return rows
