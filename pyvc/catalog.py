"""Reads literal data of the real source from its AST (never imports it):
the predefined temperature conversion table, SI prefixes, catalogue
declarations.  Literals are evaluated to exact Fractions."""
from __future__ import annotations

import ast
import os
from fractions import Fraction
from typing import Dict, List, Optional, Tuple

from .extract import Package, REPO_SRC


def literal(e: ast.expr, env: Optional[dict] = None) -> Fraction:
    """exact value of Decimal('..') / Decimal(n) / Fraction(a, b) / ints /
    products and powers of those"""
    env = env or {}
    if isinstance(e, ast.Constant):
        if isinstance(e.value, bool):
            raise ValueError("bool")
        if isinstance(e.value, int):
            return Fraction(e.value)
        if isinstance(e.value, str):
            return Fraction(e.value)
        if isinstance(e.value, float):
            return Fraction(e.value)
    if isinstance(e, ast.UnaryOp) and isinstance(e.op, ast.USub):
        return -literal(e.operand, env)
    if isinstance(e, ast.Call) and isinstance(e.func, ast.Name):
        if e.func.id == "Decimal" and len(e.args) == 1:
            return literal(e.args[0], env)
        if e.func.id == "Fraction":
            if len(e.args) == 2:
                return literal(e.args[0], env) / literal(e.args[1], env)
            return literal(e.args[0], env)
    if isinstance(e, ast.BinOp):
        a, b = literal(e.left, env), literal(e.right, env)
        if isinstance(e.op, ast.Mult):
            return a * b
        if isinstance(e.op, ast.Div):
            return a / b
        if isinstance(e.op, ast.Pow):
            if b.denominator != 1:
                raise ValueError("non-integer power")
            return a ** int(b)
        if isinstance(e.op, ast.Add):
            return a + b
        if isinstance(e.op, ast.Sub):
            return a - b
    if isinstance(e, ast.Name) and e.id in env:
        return env[e.id]
    raise ValueError(f"not a literal: {ast.dump(e)[:80]}")


def temperature_rows(pkg: Optional[Package] = None) \
        -> Dict[Tuple[str, str], Tuple[Fraction, Fraction]]:
    pkg = pkg or Package(REPO_SRC)
    mi = pkg.modules["quantity.predefined"]
    node = mi.assigns.get("_temp_conv")
    if not isinstance(node, (ast.List, ast.Tuple)):
        raise ValueError("_temp_conv is not a list literal")
    rows = {}
    for el in node.elts:
        if not (isinstance(el, ast.Tuple) and len(el.elts) == 4 and
                isinstance(el.elts[0], ast.Name) and
                isinstance(el.elts[1], ast.Name)):
            raise ValueError("row shape")
        rows[(el.elts[0].id, el.elts[1].id)] = (literal(el.elts[2]),
                                                literal(el.elts[3]))
    return rows


# ===========================================================================
# The catalogue as a client program of the declaration contracts (C20):
# predefined.py's module body is evaluated from its AST, every declaration
# going through the *contract* of new_unit / derive_unit_from / type
# declaration (scale of `k * p` is k * scale(p); scale of a unit derived from
# units u_i of the base types is prod scale(u_i) ** e_i; the reference unit of
# a derived type is the product of the base types' reference units).
_SUP = {"²": 2, "³": 3, "⁴": 4, "⁵": 5, "⁶": 6, "⁷": 7, "⁸": 8, "⁹": 9}
_SUP_CH = {v: k for k, v in _SUP.items()}


class CatalogError(Exception):
    pass


def term_symbol(items) -> str:
    """the symbol Term.__str__ generates for a unit term (documented format:
    positive powers joined by a middle dot, then '/', then negative powers)"""
    pos, neg = [], []
    for sym, e in items:
        parts = sym.split("/")
        for i, s in enumerate(parts):
            ee = e if i == 0 else -e
            tgt = pos if ee > 0 else neg
            a = abs(ee)
            tgt.append(s + ("" if a == 1 else _SUP_CH[a]))
    out = "·".join(pos) if pos else "1"
    if neg:
        out += "/" + "·".join(neg)
    return out


class Catalog:
    def __init__(self, pkg: Optional[Package] = None):
        self.pkg = pkg or Package(REPO_SRC)
        self.classes: Dict[str, dict] = {}
        self.units: Dict[str, dict] = {}      # symbol -> {cls, scale, name, var}
        self.env: Dict[str, tuple] = {}
        self.prefixes: Dict[str, int] = {}
        self.order: List[str] = []
        self._load_prefixes()
        self._run()

    # -- si_prefixes.py -------------------------------------------------------
    def _load_prefixes(self):
        mi = self.pkg.modules["quantity.si_prefixes"]
        for name, node in mi.assigns.items():
            if isinstance(node, ast.Call) and isinstance(node.func, ast.Name) \
                    and node.func.id == "SIPrefix" and len(node.args) == 3:
                self.prefixes[name] = int(literal(node.args[2]))
        ci = mi.classes["SIPrefix"]
        fac = ci.funcs["factor"].node
        ret = [n for n in ast.walk(fac) if isinstance(n, ast.Return)]
        ok = len(ret) == 1 and isinstance(ret[0].value, ast.BinOp) and \
            isinstance(ret[0].value.op, ast.Pow) and \
            ast.dump(ret[0].value.left) == ast.dump(ast.parse(
                "Decimal(10)").body[0].value) and \
            ast.dump(ret[0].value.right) == ast.dump(ast.parse(
                "self.exp").body[0].value)
        self.prefix_factor_is_power_of_ten = ok

    # -- predefined.py --------------------------------------------------------
    def dims_of(self, cname) -> Dict[str, int]:
        c = self.classes[cname]
        if c["define_as"] is None:
            return {cname: 1}
        out: Dict[str, int] = {}
        for bn, e in c["define_as"]:
            for k, ee in self.dims_of(bn).items():
                out[k] = out.get(k, 0) + ee * e
        return {k: v for k, v in out.items() if v}

    def ev(self, e: ast.expr):
        if isinstance(e, ast.Name):
            if e.id in self.env:
                return self.env[e.id]
            if e.id in self.prefixes:
                return ("prefix", self.prefixes[e.id])
            raise CatalogError(f"unknown name {e.id}")
        if isinstance(e, ast.Attribute) and isinstance(e.value, ast.Name) and \
                e.attr == "ref_unit" and e.value.id in self.classes:
            ru = self.classes[e.value.id]["ref"]
            return ("unit", ru) if ru else ("none",)
        if isinstance(e, ast.BinOp):
            if isinstance(e.op, (ast.Mult, ast.Div, ast.Pow)):
                try:
                    return ("num", literal(e))
                except ValueError:
                    pass
            a, b = self.ev(e.left), self.ev(e.right)
            if isinstance(e.op, ast.Pow) and a[0] == "cls" and b[0] == "num":
                return ("clsterm", [(a[1], int(b[1]))])
            if isinstance(e.op, ast.Pow) and a[0] == "clsterm" and b[0] == "num":
                return ("clsterm", [(n, x * int(b[1])) for n, x in a[1]])
            if isinstance(e.op, (ast.Mult, ast.Div)) and \
                    a[0] in ("cls", "clsterm") and b[0] in ("cls", "clsterm"):
                la = a[1] if a[0] == "clsterm" else [(a[1], 1)]
                lb = b[1] if b[0] == "clsterm" else [(b[1], 1)]
                sgn = 1 if isinstance(e.op, ast.Mult) else -1
                return ("clsterm", la + [(n, x * sgn) for n, x in lb])
            if isinstance(e.op, ast.Mult) and a[0] in ("num", "prefix") and \
                    b[0] == "unit":
                k = a[1] if a[0] == "num" else Fraction(10) ** a[1]
                return ("qty", k, b[1])
            raise CatalogError(f"unsupported expression {ast.dump(e)[:80]}")
        if isinstance(e, ast.Call) and isinstance(e.func, ast.Name) and \
                e.func.id == "Term" and len(e.args) == 1:
            items = []
            for it in e.args[0].elts:
                u = self.ev(it.elts[0])
                items.append((u[1], int(literal(it.elts[1]))))
            return ("unitterm", items)
        if isinstance(e, ast.Constant) and isinstance(e.value, str):
            return ("str", e.value)
        if isinstance(e, ast.Constant) and e.value is None:
            return ("none",)
        try:
            return ("num", literal(e))
        except ValueError:
            raise CatalogError(f"unsupported expression {ast.dump(e)[:80]}")

    def new_unit(self, cname, symbol, name, scale, var=None, definition=""):
        if symbol in self.units:
            raise CatalogError(f"duplicate symbol {symbol}")
        self.units[symbol] = dict(cls=cname, scale=scale, name=name, var=var,
                                  definition=definition)
        self.order.append(symbol)
        return symbol

    def _run(self):
        mi = self.pkg.modules["quantity.predefined"]
        for st in mi.tree.body:
            if isinstance(st, ast.ClassDef):
                self._class(st)
            elif isinstance(st, ast.Assign) and len(st.targets) == 1 and \
                    isinstance(st.targets[0], ast.Name):
                self._assign(st.targets[0].id, st.value)

    def _class(self, st: ast.ClassDef):
        kw = {k.arg: k.value for k in st.keywords}
        define_as = None
        if "define_as" in kw:
            t = self.ev(kw["define_as"])
            define_as = t[1] if t[0] == "clsterm" else [(t[1], 1)]
        sym = self.ev(kw["ref_unit_symbol"])[1] if "ref_unit_symbol" in kw \
            else None
        name = self.ev(kw["ref_unit_name"])[1] if "ref_unit_name" in kw else None
        quantum = self.ev(kw["quantum"])[1] if "quantum" in kw else None
        self.classes[st.name] = dict(define_as=define_as, ref=None,
                                     quantum=quantum)
        self.env[st.name] = ("cls", st.name)
        ref_def = None
        if define_as is not None:
            refs = [self.classes[bn]["ref"] for bn, _ in define_as]
            if all(refs):
                ref_def = [(r, e) for r, (_, e) in zip(refs, define_as)]
        if not sym and ref_def is not None:
            sym = term_symbol(ref_def)
        if sym:
            # reference unit: scale 1 by definition; for a derived type it is
            # the product of the base types' reference units (all scale 1)
            self.classes[st.name]["ref"] = self.new_unit(
                st.name, sym, name, Fraction(1),
                definition="" if ref_def is None else term_symbol(ref_def))

    def _assign(self, var, value):
        if isinstance(value, ast.Attribute) and value.attr == "ref_unit":
            v = self.ev(value)
            self.env[var] = v
            if v[0] == "unit":
                self.units[v[1]]["var"] = var
            return
        if not (isinstance(value, ast.Call) and
                isinstance(value.func, ast.Attribute) and
                isinstance(value.func.value, ast.Name) and
                value.func.value.id in self.classes):
            return
        cname, meth = value.func.value.id, value.func.attr
        kws = {k.arg: self.ev(k.value) for k in value.keywords}
        if meth == "new_unit":
            args = [self.ev(a) for a in value.args]
            sym = args[0][1]
            name = args[1][1] if len(args) > 1 else None
            d = args[2] if len(args) > 2 else kws.get("define_as", ("none",))
            if d[0] == "qty":
                k, p = d[1], d[2]
                if self.units[p]["cls"] != cname:
                    raise CatalogError(f"{sym}: equivalent of another type")
                scale = k * self.units[p]["scale"]
                definition = f"{k}·{p}"
            elif d[0] == "unitterm":
                scale = Fraction(1)
                dims: Dict[str, int] = {}
                for u, e in d[1]:
                    scale *= self.units[u]["scale"] ** e
                    for kk, ee in self.dims_of(self.units[u]["cls"]).items():
                        dims[kk] = dims.get(kk, 0) + ee * e
                if {k: v for k, v in dims.items() if v} != self.dims_of(cname):
                    raise CatalogError(f"{sym}: term of another dimension")
                definition = term_symbol(d[1])
            elif d[0] == "none":
                scale, definition = None, ""
            else:
                raise CatalogError(f"{sym}: definition {d!r}")
            self.env[var] = ("unit", self.new_unit(cname, sym, name, scale, var,
                                                   definition))
        elif meth == "derive_unit_from":
            args = [self.ev(a) for a in value.args]
            cdef = self.classes[cname]["define_as"]
            if cdef is None or len(cdef) != len(args):
                raise CatalogError(f"{var}: wrong number of base units")
            scale = Fraction(1)
            items = []
            for (bn, e), a in zip(cdef, args):
                if a[0] != "unit" or self.units[a[1]]["cls"] != bn:
                    raise CatalogError(f"{var}: base unit of another type")
                scale *= self.units[a[1]]["scale"] ** e
                items.append((a[1], e))
            sym = kws["symbol"][1] if "symbol" in kws else term_symbol(items)
            name = kws["name"][1] if "name" in kws else None
            self.env[var] = ("unit", self.new_unit(cname, sym, name, scale, var,
                                                   term_symbol(items)))


def frac(s: str) -> Fraction:
    return Fraction(s)


def doc_rows(pkg: Package) -> List[dict]:
    """rows of the unit tables in the module docstring of predefined.py"""
    mi = pkg.modules["quantity.predefined"]
    doc = ast.get_docstring(mi.tree, clean=False) or ""
    rows, cols, state = [], None, 0
    for line in doc.splitlines():
        if line.startswith("======"):
            if state == 0:
                cols = [(m.start(), m.end()) for m in
                        __import__("re").finditer(r"=+", line)]
                state = 1
            elif state == 1:
                state = 2
            else:
                state = 0
            continue
        if state == 1:
            header = [line[a:b].strip() for a, b in cols[:-1]] + \
                [line[cols[-1][0]:].strip()]
            continue
        if state == 2 and line.strip():
            cells = [line[a:b].strip() for a, b in cols[:-1]] + \
                [line[cols[-1][0]:].strip()]
            rows.append(dict(zip(header, cells), _header=header))
    return rows


def parse_unit_term(s: str, scale_of) -> Fraction:
    """value of a definition like '0.001·kg', 'mi/s²', 'kW·h', 'mm³'"""
    def factor(tok: str) -> Fraction:
        e = 1
        while tok and tok[-1] in _SUP:
            e, tok = _SUP[tok[-1]], tok[:-1]
        try:
            return Fraction(tok) ** e
        except ValueError:
            return scale_of(tok) ** e
    num, _, den = s.partition("/")
    v = Fraction(1)
    for tok in num.split("·"):
        if tok and tok != "1":
            v *= factor(tok)
    if den:
        for tok in den.split("·"):
            v /= factor(tok)
    return v


def catalogue_obligations(pkg: Optional[Package] = None) -> List[Tuple[str, bool, str]]:
    """ground obligations of C20, one per unit / prefix / documentation row"""
    import json
    pkg = pkg or Package(REPO_SRC)
    here = os.path.dirname(os.path.dirname(os.path.abspath(__file__)))
    table = json.load(open(os.path.join(here, "spec", "si_units.json"),
                           encoding="utf-8"))
    out: List[Tuple[str, bool, str]] = []
    try:
        cat = Catalog(pkg)
    except (CatalogError, KeyError, ValueError) as e:
        return [("catalogue/evaluable-as-client-of-the-declaration-contracts",
                 False, f"{type(e).__name__}: {e}")]
    n_units = 0
    for cname, entry in table.items():
        if cname.startswith("_") or cname in ("dimensions", "quantum",
                                              "si_prefixes"):
            continue
        c = cat.classes.get(cname)
        out.append((f"type/{cname}/declared", c is not None, ""))
        if c is None:
            continue
        out.append((f"type/{cname}/dimension",
                    cat.dims_of(cname) == table["dimensions"][cname],
                    f"{cat.dims_of(cname)}"))
        out.append((f"type/{cname}/reference-unit", c["ref"] == entry["ref"],
                    f"{c['ref']}"))
        q = table["quantum"].get(cname)
        out.append((f"type/{cname}/quantum",
                    (c["quantum"] is None) if q is None
                    else c["quantum"] == frac(q), f"{c['quantum']}"))
        for sym, val in entry["units"].items():
            n_units += 1
            u = cat.units.get(sym)
            ok = u is not None and u["cls"] == cname and \
                (u["scale"] is None if val is None else u["scale"] == frac(val))
            out.append((f"unit/{sym}/scale", ok,
                        "missing" if u is None else f"{u['cls']} {u['scale']}"))
    extra = sorted(set(cat.units) - {s for k, e in table.items()
                                     if isinstance(e, dict) and "units" in e
                                     for s in e["units"]})
    out.append(("catalogue/no-unit-outside-the-reference-table", not extra,
                f"{extra}"))
    # compound units = product of their components
    for sym, u in cat.units.items():
        if u["definition"] and u["scale"] is not None and \
                not u["definition"][0].isdigit():
            try:
                v = parse_unit_term(u["definition"],
                                    lambda s: cat.units[s]["scale"])
                out.append((f"unit/{sym}/product-of-components",
                            v == u["scale"], f"{u['definition']} = {v}"))
            except Exception as e:
                out.append((f"unit/{sym}/product-of-components", False, str(e)))
    # prefixes
    for name, exp in table["si_prefixes"].items():
        out.append((f"prefix/{name}", cat.prefixes.get(name) == exp,
                    f"{cat.prefixes.get(name)}"))
    out.append(("prefix/no-other-prefix",
                set(cat.prefixes) == set(table["si_prefixes"]), ""))
    out.append(("prefix/factor-is-ten-to-the-exponent",
                cat.prefix_factor_is_power_of_ten, ""))
    # documentation tables
    rows = doc_rows(pkg)
    seen = set()
    for r in rows:
        sym = r.get("Symbol")
        eq_key = [k for k in r["_header"] if k.startswith("Equivalent in")]
        if not sym or not eq_key:
            continue
        seen.add(sym)
        u = cat.units.get(sym)
        try:
            ok = u is not None and frac(r[eq_key[0]]) == u["scale"]
        except ValueError:
            ok = False
        out.append((f"doc/{sym}/equivalent", ok, r[eq_key[0]]))
        d = r.get("Definition", "")
        try:
            v = parse_unit_term(d, lambda s: cat.units[s]["scale"])
            out.append((f"doc/{sym}/definition", u is not None and
                        v == u["scale"], d))
        except Exception as e:
            out.append((f"doc/{sym}/definition", False, f"{d}: {e}"))
    documented = {s for s, u in cat.units.items()
                  if u["scale"] is not None and
                  cat.classes[u["cls"]]["ref"] != s}
    out.append(("doc/every-non-reference-unit-is-tabulated",
                documented <= seen, f"{sorted(documented - seen)}"))
    return out
