#!/usr/bin/env python3
"""Writes seeded/<id>/meta.json from the harvest logs (tools/harvest.sh) given
as arguments; later log entries win.  Usage: seeded_meta.py LOG..."""
import json
import os
import re
import sys

ROOT = os.path.dirname(os.path.dirname(os.path.abspath(__file__)))
entries = {}
for log in sys.argv[1:]:
    for line in open(log, errors="replace"):
        m = re.match(r"\[(C\d\d)-(m\d)\] (.*)", line.rstrip())
        if not m:
            continue
        key = f"{m.group(1)}-{m.group(2)}"
        rest = m.group(3)
        if rest.startswith("demo-clean="):
            entries[key] = dict(property=m.group(1), checks=[])
            mm = re.match(r"demo-clean=(\d+) demo-mutant=(\d+) tests: (.*)", rest)
            entries[key].update(demo_on_unchanged_tree_exit=int(mm.group(1)),
                                demo_with_change_exit=int(mm.group(2)),
                                test_suite_with_change=mm.group(3))
        elif rest.startswith("check ") and key in entries:
            mm = re.match(r"check (C\d\d) rc=(\d+) (.*)", rest)
            if mm:
                entries[key]["checks"].append(dict(
                    check=mm.group(1), exit=int(mm.group(2)), summary=mm.group(3)))
        elif rest.strip().startswith("VIOLATION") and key in entries and \
                entries[key]["checks"]:
            entries[key]["checks"][-1]["first_violation_line"] = rest.strip()
        elif rest.startswith("CONFIRMED") and key in entries:
            entries[key]["confirmed"] = True

for key, e in sorted(entries.items()):
    d = os.path.join(ROOT, "seeded", key)
    if not (e.get("confirmed") and os.path.isdir(d)):
        continue
    notes = open(os.path.join(d, "notes.md"), errors="replace").read() \
        if os.path.exists(os.path.join(d, "notes.md")) else ""
    title = notes.strip().splitlines()[0].lstrip("# ").strip() if notes.strip() else ""
    need = ""
    m = re.search(r"(?is)(needed to manifest|trigger|needed)\b[^\n]*?:\s*(.*?)(?:\n\s*\n|\n[*#-] ?\*?\*?why|\nwhy )",
                  notes + "\n\n")
    if m:
        need = " ".join(m.group(2).split())[:900]
    for c in e["checks"]:
        s = c["summary"]
        mm = re.search(r"(\d+) refuted, (\d+) undecided; stand-ins: \S+=(\d+) cases/(\d+) failing", s)
        if mm:
            c["refuted_obligations"] = int(mm.group(1))
            c["undecided_obligations"] = int(mm.group(2))
            c["standin_failing_inputs"] = int(mm.group(4))
    det = [c for c in e["checks"] if c["exit"] == 1]
    kinds = set()
    # obligations / inputs of the recorded known findings fail on the
    # unchanged tree as well and do not count as detection
    base_ref = {"C11": 2}
    base_fail = {"C11": 24, "C19": 13}
    for c in det:
        if c.get("refuted_obligations", 0) > base_ref.get(c["check"], 0):
            kinds.add("refuted obligation (deductive)")
        if c.get("standin_failing_inputs", 0) > base_fail.get(c["check"], 0):
            kinds.add("failing input (bounded stand-in)")
    meta = dict(
        id=key, property=e["property"], title=title,
        origin="written by a fresh sub-agent that was given only the text of the "
               "property and its own scratch git worktree of /repo; re-verified "
               "here in a scratch worktree at /repo HEAD",
        needs_to_manifest=need,
        what_was_run=[
            "git apply patch.diff   (scratch worktree of /repo at HEAD)",
            "PYTHONPATH=<wt>/src /venv/bin/python -m pytest -q -p no:cacheprovider tests"
            f"  -> {e['test_suite_with_change']}",
            f"DECIMALFP_FORCE_PYTHON_IMPL=1 PYTHONPATH=<wt>/src /venv/bin/python demo.py"
            f"  -> exit {e['demo_with_change_exit']} with the change, exit "
            f"{e['demo_on_unchanged_tree_exit']} on the unchanged tree",
        ] + [f"PYVC_REPO_SRC=<wt>/src ./check {c['check']} quick  -> exit {c['exit']}"
             for c in e["checks"]],
        checks=e["checks"],
        detected=bool(det), detected_by=sorted({c["check"] for c in det}),
        detection_kind=sorted(kinds),
        files=["patch.diff", "demo.py", "demo_output.txt", "notes.md"])
    note = os.path.join(d, "ORIGIN_NOTE.txt")
    if os.path.exists(note):
        meta["origin"] += "; " + " ".join(open(note).read().split())
    with open(os.path.join(d, "meta.json"), "w") as fh:
        json.dump(meta, fh, indent=1)
    for junk in (".det",):
        try:
            os.unlink(os.path.join(d, junk))
        except OSError:
            pass
    print(key, "detected" if det else "NOT DETECTED", meta["detected_by"],
          "|".join(meta["detection_kind"]))
