#!/usr/bin/env python3
"""Regenerates section 11.6 of DESIGN.md (between the seeded markers) from
seeded/*/meta.json."""
import glob
import json
import os
import re

ROOT = os.path.dirname(os.path.dirname(os.path.abspath(__file__)))
BASE_REFUTED = {"C11": 2}            # obligations of the known finding F4
BASE_FAILING = {"C11": 24, "C19": 13}


def kind(meta):
    out = set()
    for c in meta["checks"]:
        if c["exit"] != 1:
            continue
        if c.get("refuted_obligations", 0) > BASE_REFUTED.get(c["check"], 0):
            out.add("obligation")
        if c.get("standin_failing_inputs", 0) > BASE_FAILING.get(c["check"], 0):
            out.add("stand-in")
    return " + ".join(sorted(out)) or "-"


rows = []
for f in sorted(glob.glob(os.path.join(ROOT, "seeded", "*", "meta.json"))):
    m = json.load(open(f))
    first = ""
    for c in m["checks"]:
        if c["exit"] == 1 and c.get("first_violation_line"):
            first = re.sub(r".*replay=replays/", "", c["first_violation_line"])
            first = re.sub(r"-[0-9a-f]{10}\.json", "", first)
            break
    und = sum(c.get("undecided_obligations", 0) for c in m["checks"])
    rows.append(f"| `{m['id']}` | {m['title'][:110]} | "
                f"{', '.join(m['detected_by']) or '**missed**'} | {kind(m)} | "
                f"`{first[:70]}` | {und or ''} |")
n = len(rows)
det = sum(1 for r in rows if "**missed**" not in r)
n_obl = sum(1 for r in rows if "| obligation" in r)
n_both = sum(1 for r in rows if "| obligation + stand-in |" in r)
n_std = sum(1 for r in rows if "stand-in |" in r)
text = f"""### 11.6 Seeded changes (`/verif/seeded/<id>/`) and which check catches which

Each change was written by a fresh sub-agent that saw only the text of one property and
its own scratch worktree, and was kept only after I re-verified in a scratch worktree at
`/repo` HEAD that (a) the patch applies, (b) the whole test-suite still passes (2998
passed), (c) the demonstration exits 1 with the change and 0 without it. Every directory
holds `patch.diff`, `demo.py`, `demo_output.txt`, `notes.md` (the author's description) and
`meta.json` (property, what the change needs to manifest, what was run with which
result). None of them is committed in `/repo`; to run a check against one:
`git -C /repo apply /verif/seeded/<id>/patch.diff; ./check <Cxx> quick; git -C /repo checkout -- .`
(or, without touching `/repo`, `PYVC_REPO_SRC=<worktree>/src ./check <Cxx> quick`).
`m1`/`m2` are the first round (one agent per property, all 20 properties), `m3`/`m4` a
second round and `m5`/`m6` a third round (again two per property, all 20 properties),
`m7`/`m8` a fourth round for C01, C03, C04, C08, C10, C12, C13 and C17 and a fifth round
for C06, C07, C09, C11, C14, C15, C16 and C18, each on the tree with the `fix:` commits of
the time.
The raw logs of the confirmation runs are in `seeded/logs/`. After the two repairs of the
fifth round (`/repo` HEAD 8b7f35b) every stored patch was checked to apply to that tree
(`C08-m6` and `C18-m6` were re-based by hand, `REBASE_NOTE.txt`), and all 150 changes were
confirmed again from scratch on it (`seeded/logs/reconf_r5_*.log`, `reconf_r5b_*.log`: demo
0 on the unchanged tree, tests pass, demo 1, quick check of the own property exits 1); the
table below is built from that run. Four entries of the first batch were lost when I
stopped the streams to run the evidence refresh on an idle machine (the kill hit their
checks, exit 143); those four changes were run again in the second batch.

{det} of {n} confirmed changes are reported by the quick tier of the check of their own
property - *after* the strengthening described below the table. At first sight the checks
reported 32 of 39 (first round), 31 of 40 (second), 28 of 40 (third), 14 of 15
(fourth: eight properties, sixteen changes, one of which could not be confirmed) and
13 of 16 (fifth: eight properties; missed at first: `C09-m8`, a back-pointer cache in
`inverted()` - the stand-in never inverted an inverse; `C11-m7`, `isinstance` instead of
type identity in the same-kind test of `update` - needs a `datetime` or `bool` validity,
a subclass instance the scenarios and the stand-in did not contain; `C18-m8`,
`normalize()` on standard-library decimals - needs more than 28 significant digits); every miss was in
a bounded part (a stand-in that lacked the triggering input or sequence), in code outside
the functions and argument kinds under contract (`Term` general path, `utils.sum`,
`QuantityMeta.__new__`, string spellings), behind an abstraction of the model (dictionary
keys by object identity, so a changed `__hash__` is invisible; converter exceptions as one
opaque kind - refined since) or an engine error of the harness. "obligation" = a public proof obligation that is discharged on the unchanged
tree is refuted (named in the replay file); "stand-in" = the bounded stand-in produced a
failing input that is replayed against the changed code. {n_obl} changes refute at least
one obligation ({n_obl - n_both} of them only that), {n_std} produce a failing input
({n_std - n_both} only that). The last column counts
obligations that went *undecided* on the changed tree (the change left the verified
subset or the solvers found neither proof nor counter-model); those alone never raise a
violation.

| id | change | caught by | how | first replay file (hash stripped) | undecided |
|---|---|---|---|---|---|
""" + "\n".join(rows) + "\n"
p = os.path.join(ROOT, "DESIGN.md")
s = open(p).read()
B, E = "<!-- seeded:begin -->", "<!-- seeded:end -->"
if "SEEDED_PLACEHOLDER" in s:
    s = s.replace("SEEDED_PLACEHOLDER", B + "\n" + E)
i, j = s.index(B), s.index(E)
s = s[:i + len(B)] + "\n" + text + s[j:]
open(p, "w").write(s)
print(f"{det}/{n} detected")
