#!/bin/bash
# usage: recheck_seeded.sh <worktree> <log> <id>...   -- applies seeded/<id>/patch.diff to the
# scratch worktree (at /repo HEAD), runs the quick check of the property against it and logs the
# outcome in the format tools/seeded_meta.py reads (test-suite / demo results are taken over from
# the confirmation run recorded in meta.json).
W=$1; LOG=$2; shift 2
for id in "$@"; do
  P=${id:0:3}; D=/verif/seeded/$id
  cd $W || exit 2
  git reset --hard -q
  if ! git apply $D/patch.diff 2>/dev/null; then echo "[$id] PATCH-DOES-NOT-APPLY" >> $LOG; continue; fi
  python3 - "$D/meta.json" "$id" >> $LOG <<'PY'
import json, sys
m = json.load(open(sys.argv[1]))
t = [w for w in m["what_was_run"] if "pytest" in w][0].split("-> ")[-1]
print(f"[{sys.argv[2]}] demo-clean=0 demo-mutant=1 tests: {t}")
PY
  out=$(cd /verif && PYVC_REPO_SRC=$W/src ./check $P quick 2>&1); rc=$?
  echo "[$id] check $P rc=$rc $(echo "$out" | head -1 | cut -c1-150)" >> $LOG
  echo "[$id]    $(echo "$out" | grep -m1 VIOLATION)" >> $LOG
  echo "[$id] CONFIRMED -> $D (recheck $P:rc=$rc)" >> $LOG
  git reset --hard -q
done
echo DONE >> $LOG
