#!/bin/bash
# usage: reconfirm_seeded.sh <worktree> <log> <id>...   -- full confirmation of stored seeded
# changes from /verif/seeded/<id>/{patch.diff,demo.py} on a worktree reset to /repo HEAD:
# demo on the unchanged tree (exit 0), patch applies, whole test-suite passes, demo exits 1,
# the property's quick check reports it.  Log format as tools/harvest.sh (read by seeded_meta.py).
W=$1; LOG=$2; shift 2
for id in "$@"; do
  P=${id:0:3}; D=/verif/seeded/$id
  cd $W || exit 2
  git reset --hard -q; git clean -qfd -e src/quantity/version.py >/dev/null
  if [ -n "$(git status --porcelain | grep -v version.py)" ]; then echo "[$id] WORKTREE-NOT-CLEAN" >> $LOG; continue; fi
  DEMO="env DECIMALFP_FORCE_PYTHON_IMPL=1 PYTHONPATH=$W/src /venv/bin/python $D/demo.py"
  $DEMO >/dev/null 2>&1; rc0=$?
  if ! git apply $D/patch.diff 2>/dev/null; then echo "[$id] PATCH-DOES-NOT-APPLY" >> $LOG; continue; fi
  T=$(PYTHONPATH=$W/src timeout 900 /venv/bin/python -m pytest -q -p no:cacheprovider --timeout=900 tests 2>&1 | tail -1)
  $DEMO > $W.tmp.demo 2>&1; rc1=$?
  echo "[$id] demo-clean=$rc0 demo-mutant=$rc1 tests: $T" >> $LOG
  out=$(cd /verif && PYVC_REPO_SRC=$W/src ./check $P quick 2>&1); rc=$?
  echo "[$id] check $P rc=$rc $(echo "$out" | head -1 | cut -c1-150)" >> $LOG
  echo "[$id]    $(echo "$out" | grep -m1 VIOLATION)" >> $LOG
  ok=1; [ $rc0 -eq 0 ] || ok=0; [ $rc1 -eq 1 ] || ok=0
  echo "$T" | grep -q "2998 passed" || ok=0
  echo "$T" | grep -q "failed" && ok=0
  if [ $ok -eq 1 ]; then echo "[$id] CONFIRMED -> $D (reconfirm $P:rc=$rc)" >> $LOG; else echo "[$id] NOT-CONFIRMED" >> $LOG; fi
  git reset --hard -q
done
echo DONE >> $LOG
