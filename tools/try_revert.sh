#!/bin/sh
# usage: tools/try_revert.sh <commit> <pattern...>   (reverts a fix commit in the scratch worktree and runs the verifier)
c=$1; shift
cd /tmp/wt/scratch && git checkout -q -- . && git -C /repo show $c -- src | git apply -R || exit 2
cd /verif && PYVC_REPO_SRC=/tmp/wt/scratch/src python3-vt -m pyvc.run "$@" 2>&1 | grep -v "^   \[proved"
cd /tmp/wt/scratch && git checkout -q -- .
