"""Per-property texts of MANIFEST.json (kept next to the generator)."""
_TB = ("Trusted: pyvc's encoding of Python semantics (A1), assumed contracts on "
       "decimalfp/fractions (A2, monitored by the stand-ins on the pure-Python "
       "decimalfp; the C extension is not trusted), pyvc's built-in model table "
       "and lemma library (A3), z3/cvc5 (A4). Representation invariants "
       "(wf_unit, wf_qty incl. GridInv) are preconditions: established by the "
       "declaration contracts and evaluated on the live catalogue by the "
       "stand-ins. Termination unverified.")
_TECH = ("contract-based deductive verification: VCs generated from the real "
         "AST against sidecar contracts, discharged by z3 (cvc5 fall-back); "
         "bounded stand-in on the real code as labelled second line")

TEXTS = {
 "C01": dict(category="proof", technique=_TECH, note=_TB, text=
  "Unit._get_factor, Unit.__eq__, Quantity.equiv_amount, Quantity.convert and the constructor are verified path by path against contracts stated over the property's own scale function (chain_scale): result class, unit, amount = a*s1/s2 rounded once only for quantized types, exact representation, IncompatibleUnitsError for other types; round trip / via-intermediate / equals-original are lemmas over the contracts. All amounts, scales and unit pairs are symbolic, so this covers every input at once; converter lists are unrolled to length 3 (labelled). The bounded stand-in additionally checks _equiv == chain_scale on every catalogue unit and on user-declared chains (the base case of the invariant)."),
 "C03": dict(category="proof", technique=_TECH, note=_TB, text=
  "__add__/__radd__/__sub__/__rsub__/__neg__/__abs__/__pos__/__eq__/_compare and the four rich comparisons are verified for every kind of right operand (quantity of the same or another class, int, Decimal, Fraction, float, unit, str, None): IncompatibleUnitsError for other types, NotImplemented (hence TypeError) for numbers, False for ==, and for one type the result has the left unit and class and amount a1 +- a2*s2/s1 rounded once; commutativity, associativity, inverse, distributivity and exactness on quantized types (grid closure) are lemmas over these contracts."),
 "C04": dict(category="proof", technique=_TECH, note=_TB, text=
  "Quantity.__eq__/_compare/__lt__..__ge__ and Unit.__eq__/_compare/__lt__..__ge__ are verified to return exactly the operator applied to (amount, equivalent amount) resp. the units' scales, under symbolic Decimal-or-Fraction representation tags; the lemma comparison-by-reference-value turns that into agreement with exact reference values for all six operators, and reflexivity/symmetry/transitivity/trichotomy/totality follow on the reals."),
 "C05": dict(category="proof", technique=_TECH, note=_TB, text=
  "Quantity.__new__ is the single choke point (frame scan: no other raw instance creation or _amount store except allocate) and is verified to store q_round(exact value, unit) = rnd(x/quantum, default mode)*quantum for every numeric kind, unit and class; every producing operation under contract has a postcondition of the shape amount == q_round(<exact expression>) i.e. one rounding of the exact result; distance < 1 quantum, <= 1/2 under the half modes, and the side conditions of the directed modes are lemmas over the textbook relation round_rel. The rounding itself (decimalfp Decimal(x, 0)) is an assumed dependency contract, monitored by the stand-in under all 8 modes."),
 "C13": dict(category="proof", technique=_TECH, note=_TB, text=
  "_floordiv_rounded is verified against the textbook relation round_rel for all integers x, y>0 and all 8 modes (explicit or default) incl. ties; _quantize_fraction, Quantity.quantize (both representation paths; the Decimal path through the assumed contract of Decimal.quantize) and __round__ are verified to return the multiple selected by the mode in the receiver's unit and class, TypeError for other types / no reference unit. Tie behaviour of each mode is a lemma. Representation independence = both paths meet the same spec; its Decimal half rests on A2 and is monitored by the stand-in on tie grids."),

 "C02": dict(category="proof", technique=_TECH, note=_TB + " Term operations enter through assumed contracts over the denotation `den` (listed in the evidence as 'assumed contract (C07)'); DirInv/CacheInv are preconditions instantiated at the looked-up keys and evaluated on the live directories by the stand-in.", text=
  "Unit.__mul__/__truediv__/__rtruediv__/__pow__, _amnt_and_unit_from_term and Quantity.__mul__/__truediv__/__rtruediv__/__pow__ are verified for every operand kind: a result (amount, unit) always denotes exactly the product/quotient/power of the operands' denotations (numeric factor and dimension vector), the quantity's type is the unit's type, the amount is rounded once, a plain exact number is returned when the dimension vector cancels, and UndefinedResultError is raised exactly when the term->unit directory has no entry for the dimension (with or without numeric factor); on that path nothing is cached. The directory lookup rule itself is proved from the real registry code (dict + bucket lists)."),
 "C17": dict(category="proof", technique=_TECH, note=_TB, text=
  "History independence is reduced to invariants: every value-level postcondition of the unit/quantity algebra is proved for an arbitrary op-cache satisfying CacheInv and an arbitrary directory satisfying DirInv and mentions neither; the miss path preserves CacheInv for every key (ghost-quantified), the hit path returns the cached entry which denotes the same value (lemma hit-equals-miss), the error path stores nothing, so a later evaluation after the missing type is declared runs the miss path again. The stand-in replays random interleavings of declarations and operations in fresh interpreters and compares by reference value and type."),
}

NOT_APPLICABLE = {p: "contracts for this property are not built yet in this round of the framework (see DESIGN.md section 5 for the plan); not claimed until its check exists"
                  for p in ["C06", "C07", "C08", "C09", "C10", "C11", "C12",
                            "C14", "C15", "C16", "C18", "C19", "C20"]}

NOTES = ("One engine (pyvc) serves all checks. `./check <id> quick|thorough` re-reads /repo/src on every run. "
         "Exit 0 held / 1 VIOLATION line(s) / 3 engine error. Bounded stand-ins run real code under /venv/bin/python "
         "with DECIMALFP_FORCE_PYTHON_IMPL=1 and are never counted in `discharged`.")
