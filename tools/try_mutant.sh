#!/bin/sh
# usage: tools/try_mutant.sh <worktree> <diff-relative-to-worktree> <pattern...>
# applies the diff in the scratch worktree, runs the verifier against it, un-applies.
wt=$1; d=$2; shift 2
( cd "$wt" && git apply "$d" ) || exit 2
PYVC_REPO_SRC="$wt/src" python3-vt -m pyvc.run "$@" 2>&1 | grep -v "^   \[proved" 
( cd "$wt" && git apply -R "$d" )
