#!/bin/bash
# usage: harvest.sh <PROP> <mK> [check-prop...]   -- re-verifies one seeded change in the
# scratch worktree /tmp/wt/scratch (at /repo HEAD) and, when it is confirmed, stores it
# under /verif/seeded/<PROP>-<mK>/ and runs the named checks (default: PROP) against it.
DIR=$1; P=${DIR:0:3}; M=$2; shift 2; CHECKS=${@:-$P}
W=${HW:-/tmp/wt/scratch}; SRC=/tmp/wt/$DIR/mutants; TMPD=$W.tmp; mkdir -p $TMPD
cd $W || exit 2
git reset --hard -q; git clean -qfd -e src/quantity/version.py >/dev/null
log() { echo "[$P-$M] $*"; }
if ! git apply --check $SRC/$M.diff 2>/dev/null; then
  if ! git apply --check -3 $SRC/$M.diff 2>/dev/null; then log "PATCH-DOES-NOT-APPLY"; exit 3; fi
fi
DEMO="env DECIMALFP_FORCE_PYTHON_IMPL=1 PYTHONPATH=$W/src /venv/bin/python $SRC/${M}_demo.py"
$DEMO >$TMPD/demo_clean.out 2>&1; rc0=$?
git apply $SRC/$M.diff 2>/dev/null || git apply -3 $SRC/$M.diff
git diff HEAD > $TMPD/cur.diff
T=$(PYTHONPATH=$W/src timeout 900 /venv/bin/python -m pytest -q -p no:cacheprovider --timeout=900 tests 2>&1 | tail -1)
$DEMO >$TMPD/demo_mut.out 2>&1; rc1=$?
log "demo-clean=$rc0 demo-mutant=$rc1 tests: $T"
ok=1
[ $rc0 -eq 0 ] || ok=0; [ $rc1 -eq 1 ] || ok=0
echo "$T" | grep -q "2998 passed" || ok=0
echo "$T" | grep -q "failed" && ok=0
det=""
for c in $CHECKS; do
  out=$(cd /verif && PYVC_REPO_SRC=$W/src ./check $c quick 2>&1); rc=$?
  first=$(echo "$out" | grep -m1 VIOLATION)
  log "check $c rc=$rc $(echo "$out" | head -1 | cut -c1-150)"
  log "   $first"
  det="$det $c:rc=$rc"
  echo "$out" > /tmp/wt/check_$P-$M-$c.out
done
if [ $ok -eq 1 ]; then
  D=/verif/seeded/$P-$M; mkdir -p $D
  cp $TMPD/cur.diff $D/patch.diff; cp $SRC/${M}_demo.py $D/demo.py; cp $SRC/$M.md $D/notes.md
  tail -5 $TMPD/demo_mut.out > $D/demo_output.txt
  echo "$det" > $D/.det
  log "CONFIRMED -> $D ($det)"
else
  log "NOT-CONFIRMED"
fi
git reset --hard -q
