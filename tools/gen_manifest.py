#!/usr/bin/env python3
"""Regenerate MANIFEST.json from pyvc/props.py + tools/manifest_texts.py."""
import json, os, sys
ROOT = os.path.dirname(os.path.dirname(os.path.abspath(__file__)))
sys.path.insert(0, ROOT)
sys.path.insert(0, os.path.join(ROOT, "tools"))
from manifest_texts import TEXTS, NOT_APPLICABLE, NOTES  # noqa

checks = []
for pid, t in sorted(TEXTS.items()):
    checks.append(dict(
        property_id=pid,
        quick_cmd=f"./check {pid} quick",
        thorough_cmd=f"./check {pid} thorough",
        evidence_file=f"evidence/{pid}.json",
        replay_cmd_template=f"./check {pid} --replay {{path}}",
        engine="pyvc",
        level_claimed=dict(category=t["category"], text=t["text"],
                           design_ref=t.get("design_ref", "DESIGN.md section 5")),
        level_note=t["note"],
        technique=t["technique"],
    ))
m = dict(
    version=1,
    setup_cmd="./setup.sh",
    hooks=dict(
        guard="MAMRHEIN_QUANTITY_VERIF",
        enable="no source hooks exist: contracts are sidecar files under /verif/contracts and the verifier re-reads /repo/src on every run; the guard name is reserved",
        baseline_off_cmd="cd /repo && /venv/bin/python -m pytest -ra -q -p no:cacheprovider --timeout=900 --continue-on-collection-errors",
        source_commits=[],
        add_only=True),
    engines=[dict(name="pyvc", path="pyvc/",
                  serves_properties=sorted(TEXTS),
                  kind_free_text="contract-based deductive verification: VC generation by symbolic execution of the AST of the real source against sidecar contracts, discharged by z3/cvc5; bounded stand-ins on the real code (runtime/) are labelled and never counted as proved")],
    checks=checks,
    notes=NOTES,
    not_applicable=[dict(property_id=p, reason=r) for p, r in sorted(NOT_APPLICABLE.items())],
)
json.dump(m, open(os.path.join(ROOT, "MANIFEST.json"), "w"), indent=1)
import jsonschema
jsonschema.validate(m, json.load(open("/root/.vp/MANIFEST.schema.json")))
print("MANIFEST.json written:", len(checks), "checks,", len(NOT_APPLICABLE), "not applicable")
